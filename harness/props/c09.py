"""
C09 - reference statistics equal direct computation and are additive.

Tie: hand-written Lean model (CTM/Model/Stats.lean) vs the real
precompute_summary_stats_from_h5ad_list_and_tree / _from_h5ad,
truncate_precomputed_stats_file, merge_precompute_files and
read_precomputed_stats on generated references; every written file is also
checked against an independent direct census (layer i).
"""
import copy
import fractions
import itertools
import json
import math
import pathlib
import warnings

import h5py
import numpy as np

from ctmverif import core, gen, pipeline, stats_util, stagefiles_util
from ctmverif.stats_util import jrat, unrat, close

RULE = ('references generated from a random taxonomy (<=4 levels, incl. '
        'single-child chains, leaves without cells, clusters of one cell), '
        'cells shuffled so that clusters are scattered over files and chunks, '
        'unlabelled cells, cells named by the tree but absent from every '
        'file, files without any wanted cell, rows aimed at CPM = 1 exactly; '
        'each reference is run for several (file split x encoding x '
        'rows_at_a_time x n_processors x raw/log2CPM x dtype); every '
        'coarsening of the hierarchy is truncated; per-dataset files are '
        'merged. non-trivial = the reference has >=2 clusters with cells, '
        'some cluster spread over >=2 chunks or files, and >=1 unlabelled '
        'cell; distinct by (reference, run configuration)')
TRUSTED = [
    'numpy log2 / float division used by the harness to normalise the '
    'values fed to the model (same formula as convert_to_cpm; log2 itself '
    'is an abstract strictly monotone function in the theorems)',
    'anndata/h5py write and read back the matrices the harness generated',
    'AnnDataRowIterator.get_chunk returns rows r0:r1 (property C05)',
]
ASSUMPTIONS = [
    'n_processors >= 1, rows_at_a_time >= 1 (hypotheses of the theorems)',
    'cell names are unique across the files of one reference and the '
    'paths in data_path_list are distinct',
    'ge1 is compared with the code\'s own definition log2(CPM+1) > 1-1e-6 '
    'inside the documented window 1-2e-6 < CPM < 1; counts within 1e-9 '
    '(relative) of a threshold are accepted either way',
    'at least one file holds a wanted cell (otherwise the writer stops with '
    'AttributeError: modelled as error noBuffers, not claimed either way)',
]

STAT_KEYS = ('sum', 'sumsq', 'gt0', 'gt1', 'ge1')


# ---------------------------------------------------------------------------
# generation
# ---------------------------------------------------------------------------

class Reference(object):
    def __init__(self, rng, small=False):
        self.tree = gen.random_tree(
            rng, max_depth=rng.choice([1, 2, 3, 3, 4]), max_top=3,
            max_children=3, rows=False, max_leaves=6)
        self.tree.pop('metadata', None)
        self.h = list(self.tree['hierarchy'])
        self.leaf_level = self.h[-1]
        self.leaves = list(self.tree[self.leaf_level].keys())
        self.n_genes = rng.randint(1, 5)
        self.genes = gen.fresh_names(rng, self.n_genes, prefix='g')
        n_cells = rng.randint(2, 10 if small else 26)
        names = ['cell_%d' % i for i in rng.sample(range(1000), n_cells)]
        # labelling: some leaves get no cell, some exactly one
        empty = set(l for l in self.leaves if rng.random() < 0.15)
        pool = [l for l in self.leaves if l not in empty] or self.leaves[:1]
        self.label = {}
        for nm in names:
            if rng.random() < 0.2:
                self.label[nm] = None          # unlabelled
            else:
                self.label[nm] = rng.choice(pool)
        if all(v is None for v in self.label.values()):
            self.label[names[0]] = pool[0]
        self.names = names
        # raw counts
        nprng = np.random.default_rng(rng.randrange(2 ** 31))
        kind = rng.choice(['counts', 'counts', 'sparse_counts', 'floats'])
        if kind == 'counts':
            X = nprng.integers(0, 60, (n_cells, self.n_genes)).astype(float)
        elif kind == 'sparse_counts':
            X = nprng.integers(0, 400, (n_cells, self.n_genes)).astype(float)
            X[nprng.random(X.shape) < 0.6] = 0.0
        else:
            X = np.round(nprng.random((n_cells, self.n_genes)) * 50, 3) + 0.5
            X[nprng.random(X.shape) < 0.3] = 0.0
        # rows aimed at the thresholds: CPM exactly 1 / just below / above
        if self.n_genes >= 2:
            for i in range(n_cells):
                r = rng.random()
                if r < 0.12:
                    X[i, :] = 0.0
                    X[i, 0] = 999999.0
                    X[i, 1] = 1.0            # CPM = 1 exactly
                elif r < 0.2:
                    X[i, :] = 0.0
                    X[i, 0] = 1000000.0
                    X[i, 1] = 1.0            # CPM just below 1
                    if self.n_genes > 2:
                        X[i, 2] = 2.0
                elif r < 0.25:
                    X[i, :] = 0.0            # all-zero cell
        self.X = X
        # cells named by the tree but absent from every file
        self.ghost = {}
        for l in pool:
            if rng.random() < 0.2:
                self.ghost.setdefault(l, []).append('ghost_%s' % len(self.ghost))

    @classmethod
    def big(cls, rng, n_cells=600, main_frac=0.85):
        """few genes, 2-3 clusters, one of them with at least 256 cells (more
        than 65535 when n_lo is above that): the integer arrays have to hold
        totals that no 8-bit (16-bit) per-worker buffer could"""
        self = cls.__new__(cls)
        self.tree = gen.random_tree(
            rng, max_depth=rng.choice([1, 2]), max_top=2, max_children=2,
            rows=False, max_leaves=3)
        self.tree.pop('metadata', None)
        self.h = list(self.tree['hierarchy'])
        self.leaf_level = self.h[-1]
        self.leaves = list(self.tree[self.leaf_level].keys())
        self.n_genes = rng.randint(1, 2)
        self.genes = gen.fresh_names(rng, self.n_genes, prefix='g')
        names = ['cell_%d' % i for i in rng.sample(range(10 * n_cells),
                                                   n_cells)]
        main = rng.choice(self.leaves)
        self.label = {}
        for nm in names:
            r = rng.random()
            if r < 0.04:
                self.label[nm] = None
            elif r < 0.04 + main_frac or len(self.leaves) == 1:
                self.label[nm] = main
            else:
                self.label[nm] = rng.choice(self.leaves)
        self.names = names
        nprng = np.random.default_rng(rng.randrange(2 ** 31))
        X = nprng.integers(0, 60, (n_cells, self.n_genes)).astype(float)
        X[nprng.random(X.shape) < 0.1] = 0.0
        self.X = X
        self.ghost = {}
        return self

    def tree_with_cells(self, subset=None):
        t = copy.deepcopy(self.tree)
        for l in self.leaves:
            t[self.leaf_level][l] = []
        for nm in self.names:
            if subset is not None and nm not in subset:
                continue
            if self.label[nm] is not None:
                t[self.leaf_level][self.label[nm]].append(nm)
        for l, g in self.ghost.items():
            t[self.leaf_level][l] += g
        return t

    def ancestors(self):
        """leaf -> {level: ancestor}, computed from the dict alone"""
        out = {l: {self.leaf_level: l} for l in self.leaves}
        child_level = self.leaf_level
        cur = {l: l for l in self.leaves}
        for lvl in reversed(self.h[:-1]):
            parent_of = {}
            for p, kids in self.tree[lvl].items():
                for k in kids:
                    parent_of[k] = p
            for l in self.leaves:
                cur[l] = parent_of[cur[l]]
                out[l][lvl] = cur[l]
            child_level = lvl
        return out


def normalise(X, dtype):
    """log2(CPM+1) by the formula of convert_to_cpm, in the dtype numpy
    would use for an array of `dtype`"""
    data = X.astype(dtype)
    row_sums = np.sum(data, axis=1)
    denom = np.where(row_sums > 0.0, row_sums, 1.)
    cpm = data.transpose() / denom
    cpm = 1.0e6 * cpm
    return np.log2(1.0 + cpm.transpose())


def split_files(rng, n_cells, n_files):
    order = list(range(n_cells))
    if rng.random() < 0.8:
        rng.shuffle(order)
    cuts = sorted(rng.sample(range(1, n_cells), min(n_files - 1, n_cells - 1))) \
        if n_cells > 1 else []
    files = []
    prev = 0
    for c in cuts + [n_cells]:
        files.append(order[prev:c])
        prev = c
    return [f for f in files if f]


class RunConfig(object):
    def __init__(self, rng, ref, force=None):
        force = force or {}
        n = len(ref.names)
        self.files = force.get('files') or split_files(
            rng, n, rng.choice([1, 1, 2, 3, 4]))
        self.encodings = force.get('encodings') or [
            rng.choice(['dense', 'csr', 'csc']) for _ in self.files]
        self.rows = force.get('rows') or rng.choice(
            [1, 2, 3, 5, 7, max(1, n // 2), n, n + 3, 10000])
        self.n_proc = force.get('n_proc') or rng.choice([1, 2, 3, 4, 5])
        self.norm = force.get('norm') or rng.choice(['raw', 'raw', 'log2CPM'])
        self.dtype = force.get('dtype') or rng.choice(
            ['float64', 'float64', 'float32', 'int'])
        if self.dtype == 'int' and (
                self.norm != 'raw' or np.any(ref.X != np.round(ref.X))):
            self.dtype = 'float64'
        # optional `cell_set`: only these cells may enter the statistics
        # (chosen per reference by the caller so that all runs of one
        # reference are asked for the same labelling)
        self.cell_set = force.get('cell_set')
        # API keyword copy_data_over; directory layout of the inputs: 'flat'
        # = distinct names in one directory, 'same_base' = every file is
        # <donor_i>/expression.h5ad (same base name, different directory)
        self.copy_over = force['copy_over'] if 'copy_over' in force \
            else (rng.random() < (0.5 if len(self.files) > 1 else 0.15))
        self.layout = force.get('layout') or (
            'same_base' if len(self.files) > 1 and rng.random() < 0.4
            else 'flat')
        # per-file column order of var (None = the reference's order in every
        # file); only set by the dedicated var-order runs
        self.gene_orders = force.get('gene_orders')

    def as_dict(self):
        return {'files': self.files, 'encodings': self.encodings,
                'rows': self.rows, 'n_proc': self.n_proc, 'norm': self.norm,
                'dtype': self.dtype,
                'cell_set': getattr(self, 'cell_set', None),
                'copy_over': getattr(self, 'copy_over', False),
                'layout': getattr(self, 'layout', 'flat'),
                'gene_orders': getattr(self, 'gene_orders', None)}


# ---------------------------------------------------------------------------
# the implementation
# ---------------------------------------------------------------------------

def classify(exc):
    return '%s:%s' % (type(exc).__name__, str(exc).replace('\n', ' ')[:80])


class SplitTrace(object):
    """records the (path, r0, r1) lists handed to the per-worker function
    (`_process_chunk_spec`), without touching the repository.  Only WHICH
    chunks each worker got is observed - not temp-file names, not the order
    of the buffers.  If the worker function cannot be wrapped (renamed,
    other signature) nothing is recorded and the suite falls back to the
    split the model computes."""

    def __init__(self, trace_dir):
        self.trace_dir = pathlib.Path(trace_dir)
        self.pfa = None

    def __enter__(self):
        from cell_type_mapper.diff_exp import precompute_from_anndata as pfa
        orig_spec = getattr(pfa, '_process_chunk_spec', None)
        if orig_spec is None:
            return self
        self.pfa = pfa
        self.orig_spec = orig_spec
        trace_dir = self.trace_dir

        def spec(*a, **kw):
            try:
                chunks = kw.get('chunk_specification_list',
                                a[0] if a else None)
                spec_list = [(str(c[0]), int(c[1]), int(c[2]))
                             for c in chunks]
                import os
                import uuid
                out = trace_dir / ('load_%d_%s.json'
                                   % (os.getpid(), uuid.uuid4().hex))
                out.write_text(json.dumps(spec_list))
            except Exception:   # noqa: tracing must never break the run
                pass
            return orig_spec(*a, **kw)
        pfa._process_chunk_spec = spec
        return self

    def __exit__(self, *a):
        if self.pfa is not None:
            self.pfa._process_chunk_spec = self.orig_spec

    def loads(self):
        """the observed loads (any order), None when nothing was observed"""
        files = sorted(self.trace_dir.glob('load_*.json'))
        if not files:
            return None
        return [json.loads(f.read_text()) for f in files]


def part_name(i):
    """file name of the i-th entry of data_path_list; list order differs
    from the alphabetical order of the names (03, 00, 07, 04, ...)"""
    return 'part_%02d.h5ad' % ((7 * i + 3) % 10)


def write_inputs(d, ref, cfg, with_obs_levels=False):
    """one h5ad per file of the split; returns the paths"""
    if cfg.norm == 'raw':
        M = ref.X
    else:
        M = normalise(ref.X, 'float64')
    np_dtype = {'float64': np.float64, 'float32': np.float32,
                'int': np.int64}[cfg.dtype]
    paths = []
    anc = ref.ancestors()
    for i, (idx, enc) in enumerate(zip(cfg.files, cfg.encodings)):
        p = input_path(d, cfg, i)
        p.parent.mkdir(exist_ok=True)
        obs_cols = None
        if with_obs_levels:
            obs_cols = {lvl: [anc[ref.label[ref.names[j]]][lvl] for j in idx]
                        for lvl in ref.h}
        order = gene_order(ref, cfg, i)
        pipeline.write_h5ad(p, M[idx, :][:, order].astype(np_dtype),
                            [ref.names[j] for j in idx],
                            [ref.genes[k] for k in order],
                            encoding=enc, obs_cols=obs_cols)
        paths.append(p)
    return paths


def input_path(d, cfg, i):
    if getattr(cfg, 'layout', 'flat') == 'same_base':
        return pathlib.Path(d) / ('donor_%s' % 'BADC'[i % 4]) / 'expression.h5ad'
    return pathlib.Path(d) / part_name(i)


def gene_order(ref, cfg, i):
    """column j of file i holds the reference's gene gene_order[j]"""
    go = getattr(cfg, 'gene_orders', None)
    if go is None:
        return list(range(ref.n_genes))
    return list(go[i])


def var_orders_differ(ref, cfg):
    go = getattr(cfg, 'gene_orders', None)
    return go is not None and any(list(o) != list(go[0]) for o in go[1:])


def read_stats(path):
    with h5py.File(path, 'r') as f:
        out = {k: f[k][()] for k in ('n_cells',) + STAT_KEYS if k in f}
        out['cluster_to_row'] = json.loads(f['cluster_to_row'][()].decode())
        out['col_names'] = json.loads(f['col_names'][()].decode())
        out['taxonomy_tree'] = json.loads(f['taxonomy_tree'][()].decode()) \
            if 'taxonomy_tree' in f else None
        out['keys'] = sorted(f.keys())
    return out


def run_precompute(ref, cfg, d, frontend='list', subset=None):
    """returns dict(ok, err, stats, loads)"""
    from cell_type_mapper.diff_exp.precompute_from_anndata import (
        precompute_summary_stats_from_h5ad_list_and_tree,
        precompute_summary_stats_from_h5ad)
    from cell_type_mapper.taxonomy.taxonomy_tree import TaxonomyTree
    d = pathlib.Path(d)
    paths = write_inputs(d, ref, cfg, with_obs_levels=(frontend == 'single'))
    out_path = d / 'stats.h5'
    tdir = d / 'trace'
    tdir.mkdir()
    tmp = d / 'tmp'
    tmp.mkdir()
    res = {'ok': False, 'err': None, 'stats': None, 'loads': None,
           'paths': [str(p) for p in paths]}
    with SplitTrace(tdir) as tr:
        with pipeline.quiet():
            try:
                if frontend == 'single':
                    precompute_summary_stats_from_h5ad(
                        data_path=paths[0], column_hierarchy=list(ref.h),
                        taxonomy_tree=None, output_path=out_path,
                        rows_at_a_time=cfg.rows, normalization=cfg.norm,
                        tmp_dir=tmp, n_processors=cfg.n_proc)
                else:
                    tt = TaxonomyTree(data=ref.tree_with_cells(subset))
                    precompute_summary_stats_from_h5ad_list_and_tree(
                        data_path_list=list(paths), taxonomy_tree=tt,
                        output_path=out_path, rows_at_a_time=cfg.rows,
                        normalization=cfg.norm, tmp_dir=tmp,
                        n_processors=cfg.n_proc,
                        cell_set=cell_set_of(cfg),
                        copy_data_over=bool(getattr(cfg, 'copy_over',
                                                    False)))
                res['ok'] = True
            except Exception as e:   # noqa
                res['err'] = classify(e)
        res['loads'] = tr.loads()
    res['tmp_left'] = sorted(p.name for p in tmp.iterdir())
    res['out_exists'] = out_path.exists()
    if res['ok']:
        res['stats'] = read_stats(out_path)
        res['path'] = out_path
    return res


# ---------------------------------------------------------------------------
# independent census (layer i)
# ---------------------------------------------------------------------------

def census(ref, cfg, label_of=None, subset=None):
    """
    direct computation, cluster by cluster: returns
    {leaf: {'n', 'sum', 'sumsq', 'gt0': (must, may), 'gt1': .., 'ge1': ..}}
    thresholds are decided on the exact CPM (raw input) / the stored value
    (log2CPM input); (must, may) = counts that must / may be included
    """
    eff = effective_label(ref, cfg)
    label_of = label_of or (lambda nm: eff[nm])
    in_files = set(j for f in cfg.files for j in f)
    np_dtype = {'float64': np.float64, 'float32': np.float32,
                'int': np.int64}[cfg.dtype]
    if cfg.norm == 'raw':
        V = normalise(ref.X, np_dtype).astype(np.float64)
    else:
        V = normalise(ref.X, 'float64').astype(np_dtype).astype(np.float64)
    out = {}
    for j, nm in enumerate(ref.names):
        if j not in in_files:
            continue
        if subset is not None and nm not in subset:
            continue
        leaf = label_of(nm)
        if leaf is None:
            continue
        o = out.setdefault(leaf, {'n': 0, 'v': []})
        o['n'] += 1
        o['v'].append(j)
    res = {}
    for leaf, o in out.items():
        r = {'n': o['n'], 'sum': [], 'sumsq': [],
             'gt0': [], 'gt1': [], 'ge1': []}
        for g in range(ref.n_genes):
            vs = [float(V[j, g]) for j in o['v']]
            r['sum'].append(math.fsum(vs))
            r['sumsq'].append(math.fsum(v * v for v in vs))
            b = {'gt0': [0, 0], 'gt1': [0, 0], 'ge1': [0, 0]}
            for j in o['v']:
                for k, (must, may) in threshold_bits(ref, cfg, j, g,
                                                     V[j, g]).items():
                    b[k][0] += must
                    b[k][1] += may
            for k in b:
                r[k].append(tuple(b[k]))
        res[leaf] = r
    return res


TIE = fractions.Fraction(1, 10 ** 9)
WINDOW = fractions.Fraction(2, 10 ** 6)


def threshold_bits(ref, cfg, j, g, v):
    """(must, may) membership of cell j in the three counts for gene g"""
    if cfg.norm == 'raw':
        row = [stats_util.frac(x) for x in ref.X[j, :]]
        tot = sum(row)
        cpm = (row[g] * 10 ** 6 / tot) if tot > 0 else fractions.Fraction(0)
        one = fractions.Fraction(1)
        gt0 = (cpm > 0, cpm > 0)
        if cpm == 1:
            # CPM is exactly 1: the float the harness obtained by the same
            # numpy operations decides (it is 1.0 unless rounding intervenes)
            gt1 = (float(v) > 1.0, float(v) > 1.0)
        else:
            gt1 = (cpm > one * (1 + TIE), cpm > one * (1 - TIE))
        ge1 = (cpm >= 1, cpm > 1 - WINDOW)
    else:
        x = stats_util.frac(v)
        gt0 = (x > 0, x > 0)
        gt1 = (x > 1, x > 1)
        ge1 = (x >= 1, x > 1 - WINDOW)
    return {'gt0': tuple(int(b) for b in gt0),
            'gt1': tuple(int(b) for b in gt1),
            'ge1': tuple(int(b) for b in ge1)}


def check_against_census(stats, want, leaves, genes, tol, n_genes):
    """returns list of problems (empty = the file says what the census says)"""
    probs = []
    c2r = stats['cluster_to_row']
    if sorted(c2r.keys()) != sorted(leaves):
        return [('cluster_to_row-keys', sorted(c2r.keys()), sorted(leaves))]
    if sorted(c2r.values()) != list(range(len(leaves))):
        return [('cluster_to_row-not-a-bijection', c2r)]
    if stats['col_names'] != list(genes):
        return [('col_names', stats['col_names'], list(genes))]
    if stats['n_cells'].shape != (len(leaves),):
        return [('n_cells-shape', stats['n_cells'].shape)]
    for k in STAT_KEYS:
        if k not in stats or stats[k].shape != (len(leaves), n_genes):
            return [('shape', k)]
    for leaf in leaves:
        r = c2r[leaf]
        w = want.get(leaf)
        n = 0 if w is None else w['n']
        if int(stats['n_cells'][r]) != n:
            probs.append(('n_cells', leaf, int(stats['n_cells'][r]), n))
            continue
        for g in range(n_genes):
            for k in ('sum', 'sumsq'):
                got = float(stats[k][r, g])
                exp = 0.0 if w is None else w[k][g]
                if not close(got, exp, rel=tol, abs_=tol * 1e-3):
                    probs.append((k, leaf, g, got, exp))
            for k in ('gt0', 'gt1', 'ge1'):
                got = int(stats[k][r, g])
                lo, hi = (0, 0) if w is None else w[k][g]
                if not (lo <= got <= hi):
                    probs.append((k, leaf, g, got, (lo, hi)))
    return probs


# ---------------------------------------------------------------------------
# model side
# ---------------------------------------------------------------------------

class Ids(object):
    """order-preserving name -> id tables"""

    def __init__(self, ref):
        cells = sorted(set(ref.names) |
                       set(g for v in ref.ghost.values() for g in v))
        self.cell = {c: i for i, c in enumerate(cells)}
        self.leaf = {l: i for i, l in enumerate(sorted(ref.leaves))}


def model_values(ref, cfg):
    np_dtype = {'float64': np.float64, 'float32': np.float32,
                'int': np.int64}[cfg.dtype]
    if cfg.norm == 'raw':
        return normalise(ref.X, np_dtype)
    return normalise(ref.X, 'float64').astype(np_dtype)


def model_precompute(ctx, ref, cfg, ids, subset=None, loads=None):
    V = model_values(ref, cfg)
    tree = ref.tree_with_cells(subset)
    cs = cell_set_of(cfg)
    l2c = [[ids.leaf[l], [ids.cell[c] for c in tree[ref.leaf_level][l]
                          if cs is None or c in cs]]
           for l in tree[ref.leaf_level]]
    tbl = ctx.model('stats.nameToRow', {'leafToCells': l2c})
    if 'err' in tbl:
        return tbl, None
    files = []
    for i, idx in enumerate(cfg.files):
        order = gene_order(ref, cfg, i)
        files.append([i, [[ids.cell[ref.names[j]],
                           [jrat(V[j, k]) for k in order]] for j in idx]])
    req = {'nClusters': len(ref.leaves), 'g': ref.n_genes,
           'nameToRow': tbl['ok'], 'files': files, 'rows': cfg.rows,
           'nProc': cfg.n_proc}
    if getattr(cfg, 'gene_orders', None) is not None:
        gid = {g: i for i, g in enumerate(sorted(ref.genes))}
        req['geneLists'] = [[gid[ref.genes[k]] for k in gene_order(ref, cfg, i)]
                            for i in range(len(cfg.files))]
    if loads is not None and 'geneLists' not in req:
        # the OBSERVED assignment of chunks to workers is handed to the model
        # (its theorems hold for every assignment that is a partition)
        req['loads'] = loads
        out = ctx.model('stats.precomputeLoads', req)
    else:
        out = ctx.model('stats.precompute', req)
    return out, tbl['ok']


def model_loads(ctx, ref, cfg, tree_cells):
    sizes = []
    for i, idx in enumerate(cfg.files):
        if any(ref.names[j] in tree_cells for j in idx):
            sizes.append([i, len(idx)])
    return ctx.model('stats.worksplit', {
        'sizes': sizes, 'rows': cfg.rows, 'nProc': cfg.n_proc})


def buffer_to_json(stats):
    """the six arrays of a stats file as the model's Buffer"""
    rows = []
    n = stats['n_cells']
    for r in range(len(n)):
        genes = []
        for g in range(stats['sum'].shape[1]):
            genes.append([jrat(stats['sum'][r, g]), jrat(stats['sumsq'][r, g]),
                          int(stats['gt0'][r, g]), int(stats['gt1'][r, g]),
                          int(stats['ge1'][r, g])])
        rows.append([int(n[r]), genes])
    return rows


def compare_buffer(model_rows, stats, tol, row_of=None):
    """model Buffer (exact) vs arrays of a file; returns problems"""
    probs = []
    if len(model_rows) != len(stats['n_cells']):
        return [('n_rows', len(model_rows), len(stats['n_cells']))]
    for r, (n, genes) in enumerate(model_rows):
        if int(stats['n_cells'][r]) != n:
            probs.append(('n_cells', r, int(stats['n_cells'][r]), n))
        if len(genes) != stats['sum'].shape[1]:
            probs.append(('n_genes', r, len(genes)))
            continue
        for g, (s, sq, a, b, c) in enumerate(genes):
            if not close(stats['sum'][r, g], float(unrat(s)), rel=tol,
                         abs_=tol * 1e-3):
                probs.append(('sum', r, g, float(stats['sum'][r, g]),
                              float(unrat(s))))
            if not close(stats['sumsq'][r, g], float(unrat(sq)), rel=tol,
                         abs_=tol * 1e-3):
                probs.append(('sumsq', r, g, float(stats['sumsq'][r, g]),
                              float(unrat(sq))))
            for k, m in (('gt0', a), ('gt1', b), ('ge1', c)):
                if int(stats[k][r, g]) != m:
                    probs.append((k, r, g, int(stats[k][r, g]), m))
    return probs


# ---------------------------------------------------------------------------
# one reference
# ---------------------------------------------------------------------------

def nontrivial(ref, cfg):
    labelled = [nm for nm in ref.names if ref.label[nm] is not None]
    if len(set(ref.label[nm] for nm in labelled)) < 2:
        return False
    if len(labelled) == len(ref.names):
        return False
    # some cluster spread over >= 2 chunks/files
    where = {}
    for fi, idx in enumerate(cfg.files):
        for pos, j in enumerate(idx):
            l = ref.label[ref.names[j]]
            if l is not None:
                where.setdefault(l, set()).add((fi, pos // cfg.rows))
    return any(len(v) >= 2 for v in where.values())


def ref_detail(ref, cfg, extra=None):
    d = {'kind': 'precompute', 'tree': ref.tree, 'genes': ref.genes,
         'names': ref.names, 'label': ref.label, 'ghost': ref.ghost,
         'X': ref.X.tolist(), 'cfg': cfg.as_dict()}
    if extra:
        d.update(extra)
    return d


def ref_from_detail(d):
    ref = Reference.__new__(Reference)
    ref.tree = d['tree']
    ref.h = list(ref.tree['hierarchy'])
    ref.leaf_level = ref.h[-1]
    ref.leaves = list(ref.tree[ref.leaf_level].keys())
    ref.genes = d['genes']
    ref.n_genes = len(ref.genes)
    ref.names = d['names']
    ref.label = d['label']
    ref.ghost = d.get('ghost', {})
    ref.X = np.array(d['X'], dtype=float).reshape(len(ref.names), ref.n_genes)
    cfg = RunConfig.__new__(RunConfig)
    for k, v in d['cfg'].items():
        setattr(cfg, k, v)
    return ref, cfg


def cell_set_of(cfg):
    cs = getattr(cfg, 'cell_set', None)
    return None if cs is None else set(cs)


def effective_label(ref, cfg):
    """the labelling the run is asked for: tree labels, restricted to
    `cell_set` when one is given"""
    cs = cell_set_of(cfg)
    if cs is None:
        return dict(ref.label)
    return {nm: (l if nm in cs else None) for nm, l in ref.label.items()}


def tol_of(cfg):
    return 2e-5 if cfg.dtype == 'float32' else 1e-9


def check_run(ctx, ref, cfg, frontend='list', baseline=None):
    """one precompute run: census predicate, model correspondence, trace"""
    ids = Ids(ref)
    ctx.count('frontend:' + frontend)
    ctx.count('n_files:%d' % len(cfg.files))
    ctx.count('n_proc:%d' % cfg.n_proc)
    ctx.count('norm:' + cfg.norm)
    ctx.count('dtype:' + cfg.dtype)
    for e in cfg.encodings:
        ctx.count('encoding:' + e)
    detail = ref_detail(ref, cfg, {'frontend': frontend})
    with pipeline.workdir('c09_') as d:
        res = run_precompute(ref, cfg, d, frontend=frontend)
        stats = res['stats']
    ctx.case((json.dumps(detail, sort_keys=True, default=repr))
             if nontrivial(ref, cfg) else None,
             sample={'kind': 'precompute', 'frontend': frontend,
                     'cfg': cfg.as_dict(), 'n_cells': len(ref.names),
                     'n_leaves': len(ref.leaves), 'ok': res['ok'],
                     'err': res['err']})
    if res['tmp_left']:
        # what is left in tmp_dir is C19's subject, not C09's: recorded only
        ctx.count('scratch-left-in-tmp_dir')
    eff = effective_label(ref, cfg)
    labelled_in_files = any(
        eff[ref.names[j]] is not None for f in cfg.files for j in f)
    ctx.count('cell_set:%s' % (cell_set_of(cfg) is not None))
    if frontend == 'list':
        ctx.count('copy_data_over:%s' % bool(getattr(cfg, 'copy_over', False)))
        ctx.count('layout:%s' % getattr(cfg, 'layout', 'flat'))
    differ = var_orders_differ(ref, cfg)
    if getattr(cfg, 'gene_orders', None) is not None:
        ctx.count('var-order:%s' % ('differs-between-files' if differ
                                    else 'permuted-alike'))
    # (a refusal is recognised by its TYPE and situation - a RuntimeError /
    # ValueError for inputs whose var order differs - never by its wording)
    if not res['ok'] and differ and (res['err'] or '').split(':')[0] in (
            'RuntimeError', 'ValueError'):
        # files with the same genes in different column orders are refused
        # (the arrays are accumulated column by column): the correct outcome
        ctx.count('refused:var-order')
        if res['out_exists']:
            ctx.violation('C09/precompute/refused-but-file-written',
                          'the writer refuses the inputs (%s) but leaves a '
                          'statistics file' % res['err'], detail)
        if ctx.driver_ok:
            out, _ = model_precompute(ctx, ref, cfg, ids)
            if out.get('err') != 'geneMismatch':
                ctx.disagreements_checked += 1
                ctx.violation(
                    'C09/correspondence/precompute/var-order-verdict',
                    'the writer refuses files whose var order differs, the '
                    'model says %r' % (out.get('err', 'ok'),),
                    dict(detail, broken='correspondence CTM.Stats.'
                                        'precomputeChecked ~ var census'),
                    found_input=False)
        return None
    if not res['ok']:
        if labelled_in_files:
            ctx.violation('C09/precompute/crash/' + res['err'].split(':')[0],
                          'statistics writer fails on a valid reference: %s'
                          % res['err'], detail)
        return None
    tol = tol_of(cfg)
    # (i) predicate on the implementation: the direct census
    want = census(ref, cfg)
    genes_exp = list(ref.genes)
    if getattr(cfg, 'gene_orders', None) is not None and \
            sorted(stats['col_names']) == sorted(ref.genes):
        # columns may come in another order: the census is BY GENE NAME
        out_order = [ref.genes.index(g) for g in stats['col_names']]
        genes_exp = list(stats['col_names'])
        want = {leaf: dict(w, **{k: [w[k][j] for j in out_order]
                                 for k in STAT_KEYS})
                for leaf, w in want.items()}
    probs = check_against_census(stats, want, ref.leaves, genes_exp, tol,
                                 ref.n_genes)
    if not probs and stats['taxonomy_tree'] is not None and \
            frontend == 'list':
        tt = {k: v for k, v in stats['taxonomy_tree'].items()
              if k not in ('metadata',)}
        if tt != ref.tree_with_cells():
            probs.append(('taxonomy_tree', 'differs from the input tree'))
    if probs:
        ctx.violation('C09/precompute/census/' + str(probs[0][0]),
                      'written statistics differ from the direct census: %r'
                      % (probs[0],), dict(detail, problems=probs[:5]))
    # partition independence against the first run of this reference
    if baseline is not None and not probs:
        b_stats, b_cfg = baseline
        p2 = compare_files(stats, b_stats, ref.leaves,
                           max(tol, tol_of(b_cfg)),
                           exact_counts=(cfg.dtype == b_cfg.dtype
                                         and cfg.norm == b_cfg.norm))
        if p2:
            ctx.violation('C09/precompute/partition/' + str(p2[0][0]),
                          'two splits of the same reference give different '
                          'statistics: %r' % (p2[0],),
                          dict(detail, other_cfg=b_cfg.as_dict(),
                               problems=p2[:5]))
    # (ii) correspondence with the model
    # the split the run actually used (None when it could not be observed)
    il = observed_split(ctx, ref, cfg, res, eff, detail)
    if ctx.driver_ok and frontend == 'list' and len(ref.names) <= 5000:
        out, tbl = model_precompute(ctx, ref, cfg, ids, loads=il)
        if 'err' in out:
            mp = [('model-error', out['err'])]
        else:
            # model rows are in output-row order = sorted leaf order
            perm_stats = stats
            mp = compare_buffer(out['ok'], perm_stats, tol)
            c2r_model = {l: ids.leaf[l] for l in ref.leaves}
            if stats['cluster_to_row'] != c2r_model:
                mp.append(('cluster_to_row', stats['cluster_to_row'],
                           c2r_model))
        if mp:
            mp = drop_ties(mp, ref, cfg)
        if mp:
            ctx.disagreements_checked += 1
            if not probs:
                ctx.violation(
                    'C09/correspondence/precompute/' + str(mp[0][0]),
                    'correspondence stats.precompute no longer checks: %r'
                    % (mp[0],),
                    dict(detail, problems=mp[:5],
                         broken='correspondence CTM.Stats.precompute ~ '
                                'precompute_summary_stats_from_h5ad_list_and_tree'),
                    found_input=False)
    return stats


def observed_split(ctx, ref, cfg, res, eff, detail):
    """the assignment of chunks to workers the run used, as
    [[file index, r0, r1], ...] per worker, checked against what the property
    needs of it: every row of every file that holds a wanted cell is handed
    out exactly once (rows of other files at most once), to at most
    n_processors workers.  WHICH worker gets which chunk is not constrained
    (the statistics must not depend on it)."""
    impl_loads = res.get('loads')
    if not impl_loads:
        ctx.count('split:not-observed')
        return None
    try:
        il = [[[file_index_of(res, cfg, c[0]), c[1], c[2]] for c in load]
              for load in impl_loads]
    except KeyError:
        ctx.count('split:staged-copies-not-identifiable')
        return None
    ctx.traces += 1
    wanted = set(nm for nm in ref.names if eff[nm] is not None)
    problems = []
    nonempty = [l for l in il if l]
    if len(nonempty) > cfg.n_proc:
        problems.append('%d workers for n_processors=%d'
                        % (len(nonempty), cfg.n_proc))
    for i, idx in enumerate(cfg.files):
        spans = sorted((c[1], c[2]) for l in il for c in l if c[0] == i)
        covered = []
        ok = True
        pos = 0
        for r0, r1 in spans:
            if r0 != pos or r1 <= r0:
                ok = False
            pos = r1
        if spans and (not ok or pos != len(idx)):
            problems.append('rows of file %d handed out as %r (file has %d '
                            'rows)' % (i, spans, len(idx)))
        if not spans and any(ref.names[j] in wanted for j in idx):
            problems.append('file %d holds wanted cells but no chunk of it '
                            'was handed out' % i)
    if problems:
        ctx.violation(
            'C09/precompute/split-not-a-partition',
            'the chunks handed to the workers do not deal out every row '
            'exactly once: %s' % problems[0],
            dict(detail, observed_loads=il, problems=problems))
    # the shape the model's own workSplit predicts is recorded, not demanded
    if ctx.driver_ok and len(ref.names) <= 5000:
        ml = model_loads(ctx, ref, cfg, wanted)
        same = ('ok' in ml and sorted(map(repr, ml['ok'])) ==
                sorted(map(repr, nonempty)))
        ctx.count('split-shape:%s' % ('as-modelled' if same else 'other'))
    return il


def file_index_of(res, cfg, path_str):
    """position in data_path_list of the file a chunk was read from; staged
    copies (copy_data_over) are recognised by the unique base name they are
    prefixed with, KeyError when that is impossible (equal base names)"""
    if path_str in res['paths']:
        return res['paths'].index(path_str)
    base = pathlib.Path(path_str).name
    names = [pathlib.Path(q).name for q in res['paths']]
    hits = [i for i, nm in enumerate(names) if base.startswith(nm)]
    if len(set(names)) == len(names) and len(hits) == 1:
        return hits[0]
    raise KeyError(path_str)


def drop_ties(mp, ref, cfg):
    """a count disagreement at an entry whose value sits within 1e-9 of a
    cutoff is a floating-point tie, not a disagreement"""
    V = model_values(ref, cfg).astype(np.float64)
    near = set()
    for g in range(ref.n_genes):
        for j in range(len(ref.names)):
            v = float(V[j, g])
            if min(abs(v - 0.0), abs(v - 1.0), abs(v - (1.0 - 1e-6))) < 1e-9:
                near.add(g)
    order0 = gene_order(ref, cfg, 0)
    near = set(j for j, k in enumerate(order0) if k in near)
    return [p for p in mp
            if not (p[0] in ('gt0', 'gt1', 'ge1') and p[2] in near)]


def compare_files(a, b, leaves, tol, exact_counts=True):
    probs = []
    if a['col_names'] != b['col_names'] and \
            sorted(a['col_names']) == sorted(b['col_names']):
        # same genes in another column order: compare BY NAME
        cols = [b['col_names'].index(g) for g in a['col_names']]
        b = dict(b, **{k: b[k][:, cols] for k in STAT_KEYS})
    for leaf in leaves:
        ra = a['cluster_to_row'][leaf]
        rb = b['cluster_to_row'][leaf]
        if int(a['n_cells'][ra]) != int(b['n_cells'][rb]):
            probs.append(('n_cells', leaf))
        for k in ('gt0', 'gt1', 'ge1'):
            if exact_counts and not np.array_equal(a[k][ra], b[k][rb]):
                probs.append((k, leaf, a[k][ra].tolist(), b[k][rb].tolist()))
        for k in ('sum', 'sumsq'):
            for x, y in zip(a[k][ra], b[k][rb]):
                if not close(x, y, rel=tol, abs_=tol * 1e-3):
                    probs.append((k, leaf, float(x), float(y)))
    return probs


# ---------------------------------------------------------------------------
# truncation, merge, read
# ---------------------------------------------------------------------------

def write_reference_stats(ref, cfg, d, subset=None):
    res = run_precompute(ref, cfg, d, frontend='list', subset=subset)
    return res


def permute_stats_file(path, perm):
    """rewrite a statistics file with its rows permuted: row r of every
    array moves to row perm[r] and cluster_to_row is rewritten accordingly
    (still a valid statistics file; rows no longer in alphabetical order)"""
    with h5py.File(path, 'r') as f:
        keys = list(f.keys())
        data = {k: f[k][()] for k in keys}
    c2r = json.loads(data['cluster_to_row'].decode('utf-8'))
    n = len(c2r)
    inv = [0] * n
    for r, pr in enumerate(perm):
        inv[pr] = r
    new_c2r = {k: int(perm[r]) for k, r in c2r.items()}
    # dict order of the table also shuffled (reverse) so that neither the
    # row numbers nor the key order are alphabetical
    new_c2r = {k: new_c2r[k] for k in reversed(list(new_c2r))}
    with h5py.File(path, 'w') as f:
        for k in keys:
            if k == 'cluster_to_row':
                f.create_dataset(k, data=json.dumps(new_c2r).encode('utf-8'))
            elif k in ('n_cells',) + STAT_KEYS:
                f.create_dataset(k, data=data[k][inv])
            else:
                f.create_dataset(k, data=data[k])


def random_perm(rng, n):
    perm = list(range(n))
    rng.shuffle(perm)
    return perm


def truncate_step(ctx, ref, cfg, src_path, src_stats, src_h, new_h,
                  out_path, detail):
    """one call of truncate_precomputed_stats_file from a file with hierarchy
    src_h (the written file or itself the result of a truncation) to new_h:
    census of the coarser labelling, tree, model. Returns the new stats."""
    from cell_type_mapper.diff_exp.truncate_precompute import (
        truncate_precomputed_stats_file)
    anc = ref.ancestors()
    tol = tol_of(cfg)
    eff = effective_label(ref, cfg)
    src_leaf_level = src_h[-1]
    ctx.count('truncate:%s' % ('same-leaves' if new_h[-1] == src_leaf_level
                               else 'collapse'))
    with pipeline.quiet():
        try:
            truncate_precomputed_stats_file(
                input_path=src_path, output_path=out_path,
                new_hierarchy=list(new_h))
            err = None
        except Exception as e:   # noqa
            err = classify(e)
    ctx.case(json.dumps(detail, sort_keys=True, default=repr)
             if nontrivial(ref, cfg) else None)
    if err is not None:
        ctx.violation('C09/truncate/crash/' + err.split(':')[0],
                      'truncation %r -> %r fails: %s' % (src_h, new_h, err),
                      detail)
        return None
    got = read_stats(out_path)
    new_leaf_level = new_h[-1]
    new_leaves = sorted(set(anc[l][new_leaf_level] for l in ref.leaves))
    want = census(
        ref, cfg,
        label_of=lambda nm: (None if eff[nm] is None else
                             anc[eff[nm]][new_leaf_level]))
    probs = check_against_census(got, want, new_leaves, ref.genes,
                                 tol, ref.n_genes)
    if not probs:
        tt = got['taxonomy_tree']
        if tt['hierarchy'] != list(new_h):
            probs.append(('hierarchy', tt['hierarchy']))
        elif sorted(tt[new_leaf_level].keys()) != new_leaves:
            probs.append(('tree-leaves',))
        else:
            # ancestors of every new leaf are the old ones
            for lvl_p, lvl_c in zip(new_h[:-1], new_h[1:]):
                kids = {}
                for l in ref.leaves:
                    kids.setdefault(anc[l][lvl_p], set()).add(anc[l][lvl_c])
                if {k: set(v) for k, v in tt[lvl_p].items()} != kids:
                    probs.append(('tree-edges', lvl_p))
    if probs:
        ctx.violation(
            'C09/truncate/census/' + str(probs[0][0]),
            'truncated file (%r -> %r) is not the statistics of the coarser '
            'hierarchy: %r' % (src_h, new_h, probs[0]),
            dict(detail, problems=probs[:5]))
    # model
    if ctx.driver_ok and new_leaf_level != src_leaf_level:
        old_nodes = sorted(set(anc[l][src_leaf_level] for l in ref.leaves))
        old_ids = {l: i for i, l in enumerate(old_nodes)}
        up = {anc[l][src_leaf_level]: anc[l][new_leaf_level]
              for l in ref.leaves}
        new_ids = {l: i for i, l in enumerate(new_leaves)}
        # all_leaves order of the new / old tree as the code sees it
        old_order = list(src_stats['taxonomy_tree'][src_leaf_level])
        new_order = list(got['taxonomy_tree'][new_leaf_level])
        out = ctx.model('stats.truncate', {
            'g': ref.n_genes,
            'data': buffer_to_json(src_stats),
            'oldLeafToRow': [[old_ids[l], r] for l, r in
                             src_stats['cluster_to_row'].items()],
            'newLeaves': [new_ids[l] for l in new_order],
            'anc': [[old_ids[l], new_ids[up[l]]] for l in old_order]})
        if 'err' in out:
            mp = [('model-error', out['err'])]
        else:
            mp = compare_buffer(out['ok'], got, tol)
            c2r = {l: i for i, l in enumerate(new_order)}
            if got['cluster_to_row'] != c2r:
                mp.append(('cluster_to_row',))
        if mp:
            ctx.disagreements_checked += 1
            if not probs:
                ctx.violation(
                    'C09/correspondence/truncate/' + str(mp[0][0]),
                    'correspondence stats.truncate no longer '
                    'checks: %r' % (mp[0],),
                    dict(detail, problems=mp[:5],
                         broken='correspondence CTM.Stats.truncate ~ '
                                'truncate_precomputed_stats_file'),
                    found_input=False)
    return got


def proper_subhierarchies(h):
    out = []
    for k in range(1, len(h)):
        for comb in itertools.combinations(h, k):
            out.append(list(comb))
    return out


def check_truncate(ctx, ref, cfg, row_perm='random', only=None):
    """every coarsening of the written file (rows optionally permuted so
    that cluster_to_row is not alphabetical), and every coarsening of each
    coarsened file again (two-step: the intermediate file's rows follow the
    tree's dict order)"""
    from cell_type_mapper.diff_exp.truncate_precompute import (
        truncate_precomputed_stats_file)
    if len(ref.h) < 2:
        return
    with pipeline.workdir('c09t_') as d:
        res = run_precompute(ref, cfg, d)
        if not res['ok']:
            return
        if row_perm == 'random':
            row_perm = random_perm(ctx.rng, len(ref.leaves)) \
                if ctx.rng.random() < 0.7 else None
        if row_perm is not None:
            permute_stats_file(res['path'], row_perm)
            res['stats'] = read_stats(res['path'])
        ctx.count('truncate-source-rows:%s' % (
            'permuted' if row_perm is not None else 'alphabetical'))
        src_stats = res['stats']
        subsets = proper_subhierarchies(ref.h)
        if only is not None:
            subsets = [only[0]]
        elif ctx.tier == 'quick' and len(subsets) > 4:
            subsets = ctx.rng.sample(subsets, 4)
        n_out = 0
        for new_h in subsets:
            detail = ref_detail(ref, cfg, {'kind': 'truncate',
                                           'row_perm': row_perm,
                                           'new_hierarchy': new_h})
            out_path = pathlib.Path(d) / ('trunc_%d.h5' % n_out)
            n_out += 1
            got = truncate_step(ctx, ref, cfg, res['path'], src_stats,
                                list(ref.h), new_h, out_path, detail)
            if got is None or len(new_h) < 2:
                continue
            seconds = proper_subhierarchies(new_h)
            if only is not None:
                seconds = [only[1]] if len(only) > 1 and only[1] else []
            elif ctx.tier == 'quick' and len(seconds) > 2:
                seconds = ctx.rng.sample(seconds, 2)
            for second_h in seconds:
                detail2 = dict(detail, second_hierarchy=second_h)
                out2 = pathlib.Path(d) / ('trunc_%d.h5' % n_out)
                n_out += 1
                ctx.count('truncate:two-step')
                truncate_step(ctx, ref, cfg, out_path, got, list(new_h),
                              second_h, out2, detail2)
        if only is not None:
            return
        # bad requests are refused
        for bad, label in ((list(ref.h), 'same'),
                           (list(reversed(ref.h)), 'shuffled'),
                           ([ref.h[0], 'no_such_level'], 'unknown')):
            if label == 'shuffled' and len(ref.h) < 2:
                continue
            ctx.evaluations += 1
            with pipeline.quiet():
                try:
                    truncate_precomputed_stats_file(
                        input_path=res['path'],
                        output_path=pathlib.Path(d) / 'bad.h5',
                        new_hierarchy=bad)
                    refused = False
                except RuntimeError:
                    refused = True
                except Exception:
                    refused = True
            ctx.count('truncate-refused:' + label)
            if not refused:
                ctx.violation('C09/truncate/accepts-' + label,
                              'truncation accepts hierarchy %r of %r'
                              % (bad, ref.h),
                              ref_detail(ref, cfg, {'kind': 'truncate-bad',
                                                    'new_hierarchy': bad}))


def merge_plan(rng, ref):
    """3-5 per-dataset cell sets with designed win / lose patterns: one
    dataset with the most cells overall, datasets that hold the largest
    population of some cluster, datasets that win NO cluster (strictly fewer
    cells than another dataset in every cluster), exact ties; the file names
    are dealt out at random so that every sorted-path order of the roles
    occurs (a dominated dataset before a winner, the largest one first /
    last / in the middle)"""
    labelled = [nm for nm in ref.names if ref.label[nm] is not None]
    by = {}
    for nm in labelled:
        by.setdefault(ref.label[nm], []).append(nm)
    r = rng.random()
    if r < 0.25 or len(labelled) < 4:
        n_sets = rng.choice([1, 2, 3, 4])
        subsets = [sorted(rng.sample(labelled, rng.randint(1, len(labelled))))
                   for _ in range(n_sets)]
        if n_sets >= 2 and rng.random() < 0.5:
            subsets[1] = list(subsets[0])     # full tie
    else:
        n_sets = rng.choice([3, 3, 4, 4, 5])
        rare = [c for c in by if len(by[c]) >= 2]
        rng.shuffle(rare)
        n_win = rng.randint(1, max(1, min(len(rare), n_sets - 2)))
        rare = rare[:n_win]
        big = []
        for c, cells in by.items():
            if c in rare:
                big += rng.sample(cells, rng.randint(0, len(cells) - 1))
            else:
                big += cells
        if not big:
            big = list(labelled[:1])
        subsets = [sorted(big)]
        bigc = {c: [x for x in big if ref.label[x] == c] for c in by}
        for c in rare:
            w = list(by[c])
            for c2, cells in bigc.items():
                if c2 != c and len(cells) > 1 and rng.random() < 0.5:
                    w += rng.sample(cells, rng.randint(0, len(cells) - 1))
            subsets.append(sorted(w))
        while len(subsets) < n_sets:
            # wins nothing: strictly below the big dataset in every cluster
            dom = []
            for c, cells in bigc.items():
                if len(cells) > 1:
                    dom += rng.sample(cells, rng.randint(0, len(cells) - 1))
            if not dom:
                dom = list(subsets[0])       # nothing smaller exists: a tie
            subsets.append(sorted(dom))
        order = list(range(len(subsets)))
        rng.shuffle(order)
        subsets = [subsets[i] for i in order]
    pool = ['ds_a.h5', 'ds_b.h5', 'ds_c.h5', 'ds_d.h5', 'ds_e.h5', 'Ds_A.h5']
    names = rng.sample(pool, len(subsets))
    return subsets, names


def check_merge(ctx, ref, cfg, rng, subsets=None, row_perm='random',
                names=None):
    from cell_type_mapper.diff_exp.precompute_utils import (
        merge_precompute_files)
    tol = tol_of(cfg)
    labelled = [nm for nm in ref.names if ref.label[nm] is not None]
    if subsets is None:
        subsets, names = merge_plan(rng, ref)
    if names is None:
        names = ['ds_b.h5', 'ds_a.h5', 'ds_c.h5', 'ds_d.h5', 'ds_e.h5'][
            :len(subsets)]
    n_sets = len(subsets)
    if row_perm == 'random':
        row_perm = random_perm(rng, len(ref.leaves)) \
            if rng.random() < 0.7 else None
    ctx.count('merge-rows:%s' % ('permuted' if row_perm is not None
                                 else 'alphabetical'))
    detail = ref_detail(ref, cfg, {'kind': 'merge', 'subsets': subsets,
                                   'row_perm': row_perm,
                                   'file_names': names})
    with pipeline.workdir('c09m_') as d:
        paths = []
        per = []
        for i, sub in enumerate(subsets):
            sd = pathlib.Path(d) / ('set%d' % i)
            sd.mkdir()
            c2 = copy.copy(cfg)
            c2.files = [[j for j in f if ref.names[j] in set(sub)]
                        for f in cfg.files]
            keep = [k for k, f in enumerate(c2.files) if f]
            c2.files = [c2.files[k] for k in keep]
            c2.encodings = [cfg.encodings[k] for k in keep]
            res = run_precompute(ref, c2, sd, subset=set(sub))
            if not res['ok']:
                return
            p = pathlib.Path(d) / names[i]
            res['path'].rename(p)
            if row_perm is not None:
                # the same permutation for every dataset: the files must
                # agree on cluster_to_row to be mergeable
                permute_stats_file(p, row_perm)
                res['stats'] = read_stats(p)
            paths.append(str(p))
            per.append(res['stats'])
        out_path = pathlib.Path(d) / 'merged.h5'
        with pipeline.quiet():
            try:
                merge_precompute_files(list(paths), out_path)
                err = None
            except Exception as e:   # noqa
                err = classify(e)
        ctx.case(json.dumps(detail, sort_keys=True, default=repr)
                 if n_sets >= 2 else None)
        ctx.count('merge:n=%d' % n_sets)
        if err is not None:
            ctx.violation('C09/merge/crash/' + err.split(':')[0],
                          'merge fails: ' + err, detail)
            return
        got = read_stats(out_path)
    # predicate: per cluster the row of a dataset with the most cells
    probs = []
    for leaf in ref.leaves:
        r = got['cluster_to_row'][leaf]
        best = max(int(s['n_cells'][s['cluster_to_row'][leaf]]) for s in per)
        ok = False
        for s in per:
            rs = s['cluster_to_row'][leaf]
            if int(s['n_cells'][rs]) != best:
                continue
            if int(got['n_cells'][r]) == best and all(
                    np.array_equal(got[k][r], s[k][rs]) for k in STAT_KEYS):
                ok = True
        if not ok:
            probs.append(('row', leaf, int(got['n_cells'][r]), best))
    if got['col_names'] != ref.genes:
        probs.append(('col_names',))
    if probs:
        ctx.violation('C09/merge/not-max/' + str(probs[0][0]),
                      'merged row is not the row of a dataset with the most '
                      'cells: %r' % (probs[0],), dict(detail, problems=probs))
    if ctx.driver_ok:
        order = sorted(range(len(paths)), key=lambda i: paths[i])
        out = ctx.model('stats.mergeMax', {
            'files': [buffer_to_json(per[i]) for i in order]})
        if 'err' in out:
            mp = [('model-error', out['err'])]
        else:
            mp = compare_buffer(out['ok'], got, 0.0)
        if mp:
            ctx.disagreements_checked += 1
            if not probs:
                ctx.violation(
                    'C09/correspondence/merge/' + str(mp[0][0]),
                    'correspondence stats.mergeMax no longer checks: %r'
                    % (mp[0],),
                    dict(detail, problems=mp[:5],
                         broken='correspondence CTM.Stats.mergeMax ~ '
                                'merge_precompute_files'),
                    found_input=False)


def check_read(ctx, ref, cfg, row_perm='random'):
    """read_precomputed_stats addressing + aggregate_stats"""
    from cell_type_mapper.diff_exp.score_utils import read_precomputed_stats
    from cell_type_mapper.taxonomy.taxonomy_tree import TaxonomyTree
    ids = Ids(ref)
    anc = ref.ancestors()
    tol = tol_of(cfg)
    eff = effective_label(ref, cfg)
    if row_perm == 'random':
        row_perm = random_perm(ctx.rng, len(ref.leaves)) \
            if ctx.rng.random() < 0.7 else None
    ctx.count('read-rows:%s' % ('permuted' if row_perm is not None
                                else 'alphabetical'))
    detail = ref_detail(ref, cfg, {'kind': 'read', 'row_perm': row_perm})
    with pipeline.workdir('c09r_') as d:
        res = run_precompute(ref, cfg, d)
        if not res['ok']:
            return
        if row_perm is not None:
            permute_stats_file(res['path'], row_perm)
            res['stats'] = read_stats(res['path'])
        with pipeline.quiet():
            tt = TaxonomyTree(data=ref.tree_with_cells())
            got = read_precomputed_stats(res['path'], tt,
                                         for_marker_selection=True)
    stats = res['stats']
    ctx.case(json.dumps(detail, sort_keys=True, default=repr)
             if nontrivial(ref, cfg) else None)
    probs = []
    if got['gene_names'] != ref.genes:
        probs.append(('gene_names',))
    V = model_values(ref, cfg).astype(np.float64)
    in_files = set(j for f in cfg.files for j in f)
    for lvl in ref.h:
        for node in ref.tree[lvl]:
            key = '%s/%s' % (lvl, node)
            if key not in got['cluster_stats']:
                probs.append(('missing', key))
                continue
            g = got['cluster_stats'][key]
            members = [j for j, nm in enumerate(ref.names)
                       if j in in_files and eff[nm] is not None
                       and anc[eff[nm]][lvl] == node]
            n = len(members)
            if int(g['n_cells']) != n:
                probs.append(('n_cells', key, int(g['n_cells']), n))
                continue
            for gi in range(ref.n_genes):
                vs = V[members, gi] if n else np.zeros(0)
                mean = float(np.mean(vs)) if n else 0.0
                var = float(np.var(vs, ddof=1)) if n > 1 else 0.0
                scale = max(1.0, float(np.max(np.abs(vs))) ** 2 if n else 1.0)
                if not close(g['mean'][gi], mean, rel=max(tol, 1e-9),
                             abs_=tol):
                    probs.append(('mean', key, gi, float(g['mean'][gi]),
                                  mean))
                if abs(float(g['var'][gi]) - var) > max(tol, 1e-9) * 100 * scale:
                    probs.append(('var', key, gi, float(g['var'][gi]), var))
    if probs:
        ctx.violation('C09/read/' + str(probs[0][0]),
                      'read_precomputed_stats does not address the file by '
                      'its own tables: %r' % (probs[0],),
                      dict(detail, problems=probs[:5]))
    if ctx.driver_ok:
        mp = []
        for lvl in ref.h:
            for node in ref.tree[lvl]:
                leaves = [l for l in tt.as_leaves[lvl][node]]
                out = ctx.model('stats.aggregate', {
                    'g': ref.n_genes, 'data': buffer_to_json(stats),
                    'clusterToRow': [[ids.leaf[l], r] for l, r in
                                     stats['cluster_to_row'].items()],
                    'leaves': [ids.leaf[l] for l in leaves]})
                key = '%s/%s' % (lvl, node)
                if 'err' in out:
                    mp.append(('model-error', key, out['err']))
                    continue
                o = out['ok']
                g = got['cluster_stats'].get(key)
                if g is None:
                    continue
                if int(g['n_cells']) != o['n']:
                    mp.append(('n', key))
                for gi in range(ref.n_genes):
                    if not close(g['mean'][gi], float(unrat(o['mean'][gi])),
                                 rel=1e-9, abs_=1e-12):
                        mp.append(('mean', key, gi))
                    mv = float(unrat(o['var'][gi]))
                    if abs(float(g['var'][gi]) - mv) > 1e-7 * max(
                            1.0, abs(mv), float(stats['sumsq'].max())):
                        mp.append(('var', key, gi, float(g['var'][gi]), mv))
                    if int(g['ge1'][gi]) != o['ge1'][gi]:
                        mp.append(('ge1', key, gi))
        if mp:
            ctx.disagreements_checked += 1
            if not probs:
                ctx.violation(
                    'C09/correspondence/read/' + str(mp[0][0]),
                    'correspondence stats.aggregate no longer checks: %r'
                    % (mp[0],),
                    dict(detail, problems=mp[:5],
                         broken='correspondence CTM.Stats.aggregateStats ~ '
                                'read_precomputed_stats/aggregate_stats'),
                    found_input=False)


# ---------------------------------------------------------------------------
# entry points
# ---------------------------------------------------------------------------

def translate(ctx):
    try:
        stats_util.translate_thresholds(ctx)
    except stats_util.TranslateError as e:
        ctx.broken.append('translator stats_utils.py: %s' % e)
    try:
        stats_util.translate_buffer_bits(ctx)
    except stats_util.TranslateError as e:
        ctx.broken.append('translator precompute_from_anndata.py (integer '
                          'width of the worker buffers): %s' % e)


def run(ctx):
    rng = ctx.rng
    warnings.simplefilter('ignore')
    cdir = core.VERIF / 'corpus' / 'C09'
    for f in sorted(cdir.glob('*.json')) if cdir.is_dir() else []:
        replay(ctx, json.loads(f.read_text()), from_corpus=True)
    quick = ctx.tier == 'quick'
    n_refs = 32 if quick else 220
    n_splits = 4 if quick else 6
    run_big(ctx, rng)
    for _ in range(5 if quick else 30):
        check_abc(ctx, rng)
    for i in range(n_refs):
        ref = Reference(rng, small=(i % 3 == 0))
        baseline = None
        cfgs = []
        cell_set = None
        if rng.random() < 0.25:
            k = rng.randint(1, len(ref.names))
            cell_set = sorted(rng.sample(ref.names, k)) + ['not_a_cell']
        for k in range(n_splits):
            cfg = RunConfig(rng, ref, force={'cell_set': cell_set})
            cfgs.append(cfg)
            stats = check_run(ctx, ref, cfg, baseline=baseline)
            if stats is not None and baseline is None:
                baseline = (stats, cfg)
        # files whose var lists the genes in another column order: all
        # alike (accepted, statistics by gene name) or differing (refused)
        if ref.n_genes >= 2 and len(ref.names) >= 2 and i % 2 == 0:
            check_var_order(ctx, rng, ref, cell_set, baseline)
        # single-file front end (every cell labelled through obs columns)
        if i % 2 == 0:
            ref2 = copy.copy(ref)
            ref2.label = {nm: (ref.label[nm] or ref.leaves[0])
                          for nm in ref.names}
            ref2.ghost = {}
            # from_h5ad builds the tree from the labels present
            present = set(ref2.label.values())
            if present == set(ref.leaves):
                cfg = RunConfig(rng, ref2, force={
                    'files': [list(range(len(ref.names)))]})
                check_run(ctx, ref2, cfg, frontend='single')
        cfg = cfgs[0]
        check_truncate(ctx, ref, cfg if quick else rng.choice(cfgs))
        if quick and i % 2:
            continue
        check_merge(ctx, ref, rng.choice(cfgs), rng)
        check_read(ctx, ref, rng.choice(cfgs))
        # the name tables that link the file to the later stages (model
        # CTM/Model/StageFiles.lean): rows and gene columns permuted
        stagefiles_util.check_names(ctx, rng)


def check_var_order(ctx, rng, ref, cell_set, baseline):
    n = len(ref.names)
    files = split_files(rng, n, rng.choice([2, 2, 3]))
    if len(files) < 2:
        return
    base = random_perm(rng, ref.n_genes)
    if rng.random() < 0.35:
        orders = [list(base) for _ in files]
    else:
        orders = [list(base) for _ in files]
        k = rng.randrange(1, len(files))
        other = list(base)
        while other == list(base):
            rng.shuffle(other)
        orders[k] = other
    cfg = RunConfig(rng, ref, force={'files': files, 'cell_set': cell_set,
                                     'gene_orders': orders})
    check_run(ctx, ref, cfg, baseline=baseline)


# ---------------------------------------------------------------------------
# the ABC-atlas entry point (cli/precompute_stats_abc.py), split_by_dataset
# ---------------------------------------------------------------------------

ABC_LABELS = ['WMB-10Xv2', 'Lab B 10Xv3', 'Zhuang-ABCA-1/2', 'donn\u00e9es 2',
              'a b/c d', 'plain', 'X/Y', 'WMB-10XMulti', ' lead', 'Z\u00fcrich']


def abc_reference(rng):
    """a Reference whose taxonomy can be written as the ABC release CSVs
    (labels without commas / quotes, unique across levels)"""
    depth = rng.choice([1, 2, 3, 3])
    level_names = ['class', 'subclass', 'cluster'][3 - depth:]
    raw = gen.random_tree(rng, max_depth=depth, max_top=2, max_children=3,
                          rows=False, max_leaves=6, level_names=level_names)
    while not all(l in raw for l in level_names):
        raw = gen.random_tree(rng, max_depth=depth, max_top=2,
                              max_children=3, rows=False, max_leaves=6,
                              level_names=level_names)
    raw.pop('metadata', None)
    ren = {}
    for lvl in level_names:
        keys = list(raw[lvl].keys())
        order = list(range(len(keys)))
        rng.shuffle(order)
        for k, i in zip(keys, order):
            ren[(lvl, k)] = '%s_%d' % (lvl[:4].upper(), i)
    tree = {'hierarchy': list(level_names)}
    for li, lvl in enumerate(level_names):
        tree[lvl] = {}
        for k, kids in raw[lvl].items():
            tree[lvl][ren[(lvl, k)]] = [] if li == depth - 1 else [
                ren[(level_names[li + 1], c)] for c in kids]
    ref = Reference.__new__(Reference)
    ref.tree = tree
    ref.h = list(level_names)
    ref.leaf_level = level_names[-1]
    ref.leaves = list(tree[ref.leaf_level].keys())
    ref.n_genes = rng.randint(1, 4)
    ref.genes = gen.fresh_names(rng, ref.n_genes, prefix='g')
    ref.genes = [g.replace(',', ';').replace('"', "'") for g in ref.genes]
    if len(set(ref.genes)) != ref.n_genes:
        ref.genes = ['gene_%d' % i for i in range(ref.n_genes)]
    n_cells = rng.randint(max(4, len(ref.leaves)), 40)
    ref.names = ['cell_%04d' % i for i in rng.sample(range(5000), n_cells)]
    ref.label = {}
    for nm in ref.names:
        ref.label[nm] = None if rng.random() < 0.15 else rng.choice(ref.leaves)
    # every cluster of a release has at least one cell in cell_metadata.csv
    for leaf, nm in zip(ref.leaves, rng.sample(ref.names, len(ref.leaves))):
        ref.label[nm] = leaf
    nprng = np.random.default_rng(rng.randrange(2 ** 31))
    ref.X = nprng.integers(0, 60, (n_cells, ref.n_genes)).astype(float)
    ref.X[nprng.random(ref.X.shape) < 0.3] = 0.0
    ref.ghost = {}
    return ref


def write_abc_csvs(d, ref, dataset_of, with_dataset_col=True):
    import csv
    d = pathlib.Path(d)
    anc = ref.ancestors()
    alias = {l: 100 + i for i, l in enumerate(sorted(ref.leaves))}
    term = d / 'cluster_annotation_term.csv'
    with open(term, 'w', newline='') as f:
        w = csv.writer(f)
        w.writerow(['label', 'cluster_annotation_term_set_label',
                    'parent_term_label', 'parent_term_set_label'])
        for li, lvl in enumerate(ref.h):
            for node in ref.tree[lvl]:
                if li == 0:
                    w.writerow([node, lvl, '', ''])
                else:
                    par = [p for p, kids in ref.tree[ref.h[li - 1]].items()
                           if node in kids][0]
                    w.writerow([node, lvl, par, ref.h[li - 1]])
    memb = d / 'cluster_to_cluster_annotation_membership.csv'
    with open(memb, 'w', newline='') as f:
        w = csv.writer(f)
        w.writerow(['cluster_annotation_term_set_label',
                    'cluster_annotation_term_set_name',
                    'cluster_annotation_term_label',
                    'cluster_annotation_term_name', 'cluster_alias'])
        for leaf in ref.leaves:
            for lvl in reversed(ref.h):
                w.writerow([lvl, lvl + '_name', anc[leaf][lvl],
                            anc[leaf][lvl] + ' readable', alias[leaf]])
    meta = d / 'cell_metadata.csv'
    with open(meta, 'w', newline='') as f:
        w = csv.writer(f)
        head = ['cell_label', 'library', 'cluster_alias']
        if with_dataset_col:
            head.append('dataset_label')
        w.writerow(head)
        for nm in ref.names:
            if ref.label[nm] is None:
                continue        # cells no csv mentions
            row = [nm, 'lib0', alias[ref.label[nm]]]
            if with_dataset_col:
                row.append(dataset_of[nm])
            w.writerow(row)
    return term, memb, meta


def check_abc(ctx, rng, case=None):
    """PrecomputationABCRunner.run() (object made with __new__, .args filled
    by hand: the argschema front end cannot be constructed here) with
    split_by_dataset: every per-dataset file must be the direct census of
    that dataset's cells, the combined file per cluster the row of a dataset
    with the most cells"""
    from cell_type_mapper.cli.precompute_stats_abc import (
        PrecomputationABCRunner)
    if case is None:
        ref = abc_reference(rng)
        n_ds = rng.choice([1, 2, 2, 3, 3])
        labels = rng.sample(ABC_LABELS, n_ds)
        while len(set(l.replace(' ', '_').replace('/', '.')
                      for l in labels)) != n_ds:
            labels = rng.sample(ABC_LABELS, n_ds)
        dataset_of = {nm: rng.choice(labels) for nm in ref.names}
        cfg = RunConfig(rng, ref, force={
            'cell_set': None, 'norm': 'raw', 'dtype': 'float64',
            'copy_over': False, 'rows': 10000})
        split = rng.random() < 0.85
        with_col = rng.random() < 0.9
    else:
        ref, cfg = ref_from_detail(case)
        labels, dataset_of = case['labels'], case['dataset_of']
        split, with_col = case['split'], case['with_col']
    detail = ref_detail(ref, cfg, {'kind': 'abc', 'labels': labels,
                                   'dataset_of': dataset_of, 'split': split,
                                   'with_col': with_col})
    tol = tol_of(cfg)
    ctx.count('abc:datasets=%d' % len(labels))
    ctx.count('abc:split=%s,col=%s' % (split, with_col))
    for l in labels:
        if ' ' in l or '/' in l:
            ctx.count('abc:label-with-blank-or-slash')
    with pipeline.workdir('c09abc_') as d:
        d = pathlib.Path(d)
        paths = write_inputs(d, ref, cfg)
        term, memb, meta = write_abc_csvs(d, ref, dataset_of, with_col)
        out_dir = d / 'output'
        out_dir.mkdir()
        scratch = d / 'scratch'
        scratch.mkdir()
        runner = PrecomputationABCRunner.__new__(PrecomputationABCRunner)
        runner.args = {
            'h5ad_path_list': [str(q) for q in paths],
            'cell_metadata_path': str(meta),
            'cluster_annotation_path': str(term),
            'cluster_membership_path': str(memb),
            'hierarchy': list(ref.h), 'normalization': 'raw',
            'output_path': str(out_dir / 'precomputed_stats.h5'),
            'split_by_dataset': split, 'clobber': False,
            'n_processors': cfg.n_proc, 'tmp_dir': str(scratch),
            'log_level': 'ERROR'}
        with pipeline.quiet():
            try:
                runner.run()
                err = None
            except Exception as e:   # noqa
                err = classify(e)
        ctx.case(json.dumps(detail, sort_keys=True, default=repr)
                 if len(labels) > 1 and split and with_col else None)
        if err is not None:
            ctx.violation('C09/abc/crash/' + err.split(':')[0],
                          'the ABC entry point fails on a valid release: '
                          + err, detail)
            return
        left = sorted(q.name for q in scratch.iterdir())
        if left:
            ctx.count('abc:scratch-left-in-tmp_dir')   # C19's subject
        files = {}
        if split and with_col:
            used = [l for l in labels if any(
                dataset_of[nm] == l and ref.label[nm] is not None
                for nm in ref.names)]
            # which file belongs to which dataset: by the documented naming
            # (<stem>.<label with ' '->'_' and '/'->'.'>.h5); if a file of
            # that name does not exist, by the dataset recorded in the
            # file's metadata (the naming scheme is not part of C09)
            cands = sorted(q for q in out_dir.glob('*.h5'))
            combined = [q for q in cands if 'combined' in q.name]
            rest = [q for q in cands if q not in combined]
            recorded = {}
            for q in rest:
                try:
                    with h5py.File(q, 'r') as f:
                        md = json.loads(f['metadata'][()].decode())
                    recorded[md.get('dataset')] = q
                except Exception:   # noqa
                    pass
            for l in used:
                san = l.replace(' ', '_').replace('/', '.')
                q = out_dir / ('precomputed_stats.%s.h5' % san)
                if not q.is_file():
                    q = recorded.get(l, recorded.get(san, q))
                files[l] = q
            files['combined'] = combined[0] if combined else \
                out_dir / 'precomputed_stats.combined.h5'
        else:
            used = []
            files[None] = out_dir / 'precomputed_stats.h5'
        per_census = {}
        for key, pth in files.items():
            if not pth.is_file():
                ctx.violation('C09/abc/file-missing',
                              'no statistics file for %r' % (key,), detail)
                continue
            got = read_stats(pth)
            if key == 'combined':
                continue
            c2 = copy.copy(cfg)
            if key is not None:
                c2.cell_set = [nm for nm in ref.names if dataset_of[nm] == key]
            want = census(ref, c2)
            per_census[key] = want
            probs = check_against_census(got, want, ref.leaves, ref.genes,
                                         tol, ref.n_genes)
            if probs:
                ctx.violation(
                    'C09/abc/dataset-census/' + str(probs[0][0]),
                    'the file of dataset %r is not the statistics of that '
                    "dataset's cells: %r" % (key, probs[0]),
                    dict(detail, dataset=key, problems=probs[:5]))
        if 'combined' in files and files['combined'].is_file():
            got = read_stats(files['combined'])
            probs = []
            for leaf in ref.leaves:
                r = got['cluster_to_row'].get(leaf)
                if r is None:
                    probs.append(('cluster_to_row', leaf))
                    continue
                ns = {l: (per_census[l].get(leaf) or {'n': 0})['n']
                      for l in used if l in per_census}
                best = max(ns.values()) if ns else 0
                ok = False
                for l, n in ns.items():
                    if n != best:
                        continue
                    one = {leaf: per_census[l].get(leaf)} \
                        if per_census[l].get(leaf) else {}
                    sub = dict(got, cluster_to_row={leaf: 0},
                               n_cells=got['n_cells'][[r]],
                               **{k: got[k][[r], :] for k in STAT_KEYS})
                    if not check_against_census(sub, one, [leaf], ref.genes,
                                                tol, ref.n_genes):
                        ok = True
                if not ok:
                    probs.append(('row', leaf, int(got['n_cells'][r]), best))
            if probs:
                ctx.violation(
                    'C09/abc/combined/' + str(probs[0][0]),
                    'the combined file does not hold, per cluster, the row '
                    'of the dataset with the most cells: %r' % (probs[0],),
                    dict(detail, problems=probs[:5]))


def run_big(ctx, rng):
    """clusters of 256-700+ cells spread over >= 2 workers: the totals of
    n_cells / gt0 / gt1 / ge1 exceed what an 8-bit array could hold although
    no single worker's share does; thorough adds one reference whose totals
    exceed 16 bits"""
    quick = ctx.tier == 'quick'
    # (n_processors, cells, share of the main cluster): the main cluster's
    # total is above 255 (65535) while each worker's share stays below it
    plan = []
    for _ in range(3 if quick else 10):
        n_proc = rng.choice([2, 2, 3, 4])
        plan.append((n_proc, rng.randint(350, 230 * n_proc), 0.85))
    if not quick:
        plan.append((2, rng.randint(70000, 74000), 0.93))
    for n_proc, n, frac in plan:
        ref = Reference.big(rng, n, frac)
        baseline = None
        for k in range(2 if n < 5000 else 1):
            files = split_files(rng, n, rng.choice([1, 2]))
            rows = rng.choice([16, 32, 50]) if n < 5000 else 10000
            cfg = RunConfig(rng, ref, force={
                'files': files,
                'encodings': [rng.choice(['dense', 'csr']) for _ in files],
                'rows': rows,
                'n_proc': n_proc if k == 0 else rng.choice([1, 2, 5]),
                'norm': 'raw', 'dtype': rng.choice(['float64', 'int']),
                'cell_set': None})
            ctx.count('big-reference:%s' % ('>65535' if n > 65535 else
                                            '>255'))
            stats = check_run(ctx, ref, cfg, baseline=baseline)
            if stats is not None and baseline is None:
                baseline = (stats, cfg)


def replay(ctx, data, from_corpus=False):
    d = data.get('detail', data)
    kind = d.get('kind')
    if kind == 'names':
        stagefiles_util.replay_names(ctx, d)
        return
    if kind == 'abc':
        check_abc(ctx, None, case=d)
        return
    if kind not in ('precompute', 'truncate', 'truncate-bad', 'merge', 'read'):
        if not from_corpus:
            print('nothing to replay for kind', kind)
        return
    ref, cfg = ref_from_detail(d)
    if kind == 'precompute':
        check_run(ctx, ref, cfg, frontend=d.get('frontend', 'list'))
        if 'other_cfg' in d:
            c2 = RunConfig.__new__(RunConfig)
            for k, v in d['other_cfg'].items():
                setattr(c2, k, v)
            b = check_run(ctx, ref, c2)
            if b is not None:
                check_run(ctx, ref, cfg, baseline=(b, c2))
    elif kind in ('truncate', 'truncate-bad'):
        if 'row_perm' in d and 'new_hierarchy' in d and kind == 'truncate':
            check_truncate(ctx, ref, cfg, row_perm=d['row_perm'],
                           only=[d['new_hierarchy'],
                                 d.get('second_hierarchy')])
        else:
            # hand-written case: alphabetical rows, then reversed rows
            check_truncate(ctx, ref, cfg, row_perm=None)
            check_truncate(ctx, ref, cfg, row_perm=list(
                reversed(range(len(ref.leaves)))))
    elif kind == 'merge':
        check_merge(ctx, ref, cfg, None, subsets=d.get('subsets'),
                    row_perm=d.get('row_perm', list(
                        reversed(range(len(ref.leaves))))),
                    names=d.get('file_names'))
    elif kind == 'read':
        check_read(ctx, ref, cfg, row_perm=d.get('row_perm', list(
            reversed(range(len(ref.leaves))))))
