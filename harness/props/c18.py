"""
C18 -- the stages compose: cluster centroids map back to themselves.

Generated separable reference (raw counts, cluster-specific on/off genes)
-> the REAL stages chained through their Python entry points
   precompute_summary_stats_from_h5ad -> find_markers_for_all_taxonomy_pairs
   -> create_marker_gene_lookup_from_ref_list -> run_mapping
with the query = the leaf centroids (sum/n_cells copied from the statistics
file, declared log2CPM, written in an independent gene order, a few genes
dropped/added).  Per (centroid, node on its path, iteration) the guard of the
property ("no other leaf below the node perfectly correlated on the genes
used", and the restriction not constant) is evaluated from the traced
subsets; where it holds for every iteration the record must say: home child,
probability 1, correlation 1.  The votes are also recomputed from the files
(same machinery as C02) so that the names tie the files together.
"""
import json

import h5py
import numpy as np

from ctmverif import election_util as eu
from ctmverif import stagefiles_util
from ctmverif import election_pipeline as ep
from ctmverif import pipeline

RULE = ('references: trees of 1-3 levels with 2-7 leaves (single-child '
        'chains, single top node), 16-30 genes, 8-12 cells per leaf, '
        'cluster-specific on/off genes with Poisson noise (separable); '
        'encodings dense/csr; bootstrap factors 2/n..1, 1-10 iterations (every 4th case one run with 255/256/257, thorough: one with 65536: vote-counter width borders), '
        'several seeds, query gene order independent of the reference, 0-2 '
        'genes dropped, 0-2 foreign genes added; node names reused across '
        'levels in different lineages (a child named like a later-sorted node '
        'of the parent level, or of a level further up); 300-600 non-reference '
        'gene columns prepended / interleaved so that markers sit beyond query '
        'column 255 (thorough: one query beyond 65535); mapping runs under option '
        'combinations: per-level bootstrap_factor_lookup (with the None key, '
        'written against the reference taxonomy) x drop_level x flatten x '
        'n_runners_up. non-trivial = some '
        '(centroid, node) with a real choice where the guard holds; distinct '
        'by canonical JSON of the case')
TRUSTED = ['"correlation 1" is checked to 1e-9; "perfectly correlated" in '
           'the guard means float correlation >= 1 - 1e-9',
           'anndata/h5py write and read back the generated reference and '
           'query unchanged']
ASSUMPTIONS = ['clusters are separable enough for the marker finder to '
               'return markers for every sibling pair (generator property; '
               'the count of guard-true cases is reported)']

SIG = 'C18'


def gen_case(rng, i, big_query=0):
    depth = 1 + i % 3
    tree = ep.gen_tree(rng, depth, max_leaves=7,
                       single_top=(depth > 1 and rng.random() < 0.15),
                       chain_prob=0.25, share_names=(i % 2 == 0))
    collide = None
    h0 = tree['hierarchy']
    if depth >= 2 and i % 2 == 0:
        # reuse a node name across levels in DIFFERENT lineages: a child of
        # parent p1 takes the name of another, later-sorted node p2 of the
        # parent level (adjacent levels), or of a level further up
        ks = [k for k in range(depth - 1) if len(tree[h0[k]]) >= 2]
        if ks:
            k = rng.choice(ks)
            parents = sorted(tree[h0[k]])
            p1 = rng.choice(parents[:-1])
            p2 = rng.choice([q for q in parents if q > p1])
            tgt = k + 1 if (depth == 2 or rng.random() < 0.7) else depth - 1
            # a node of level `tgt` below p1
            below = [p1]
            for kk in range(k, tgt):
                below = [c for q in below for c in tree[h0[kk]][q]]
            if below and p2 not in tree[h0[tgt]]:
                old = rng.choice(below)
                lv = h0[tgt]
                tree[lv] = {(p2 if n == old else n): v
                            for n, v in tree[lv].items()}
                up = h0[tgt - 1]
                tree[up] = {n: [(p2 if c == old else c) for c in v]
                            for n, v in tree[up].items()}
                collide = [h0[k], p1, p2, lv]
    tv = eu.TreeView(tree)
    n_genes = rng.randint(16, 30)
    genes = ['g%d' % k for k in range(n_genes)]
    rng.shuffle(genes)
    nprng = np.random.default_rng(rng.randrange(2 ** 31))
    X = []
    labels = []
    for leaf in tv.leaves:
        on = nprng.integers(0, 2, n_genes)
        prof = on * nprng.integers(30, 200, n_genes) + \
            nprng.integers(0, 2, n_genes)
        for _ in range(rng.randint(8, 12)):
            X.append([int(v) for v in nprng.poisson(prof + 0.3)])
            labels.append(leaf)
    order = list(range(len(X)))
    rng.shuffle(order)
    X = [X[k] for k in order]
    labels = [labels[k] for k in order]
    qgenes = list(genes)
    rng.shuffle(qgenes)
    qgenes = qgenes[rng.randint(0, 2):] + [
        'foreign%d' % k for k in range(rng.randint(0, 2))]
    rng.shuffle(qgenes)
    wide = None
    if big_query or i % 3 == 0:
        # many non-reference gene columns in FRONT of / among the markers:
        # query column indexes beyond 255 (65535) while the reference has
        # <= 255 genes
        n_extra = big_query if big_query else rng.randint(300, 600)
        extra = ['zz_extra%d' % k for k in range(n_extra)]
        if big_query or rng.random() < 0.5:
            qgenes = extra + qgenes
            wide = 'prepended'
        else:
            pos = sorted(rng.randrange(len(qgenes) + 1) for _ in extra)
            out = []
            j = 0
            for k, g in enumerate(qgenes + [None]):
                while j < len(pos) and pos[j] == k:
                    out.append(extra[j])
                    j += 1
                if g is not None:
                    out.append(g)
            # most markers end up beyond column 255 when the extras lead
            qgenes = extra[:260] + [g for g in out if g not in extra[:260]]
            wide = 'interleaved'
    runs = []
    for _ in range(2 if i % 2 else 3):
        u = rng.random()
        runs.append({
            'bootstrap_factor': 1.0 if u < 0.2 else 0.5 if u < 0.35 else
            rng.uniform(0.1, 1.0),
            'bootstrap_iteration': rng.randint(1, 10),
            'rng_seed': rng.randrange(2 ** 31),
            'n_runners_up': rng.choice([0, 1, 3]),
            'n_processors': rng.randint(1, 3),
            'chunk_size': rng.randint(1, 5),
            'normalization': 'log2CPM', 'flatten': False,
            'drop_level': None, 'encoding': 'dense',
            'bootstrap_factor_lookup': None})
    if i % 4 == 1:
        # aimed family: iteration counts at the borders of the vote counter's
        # integer width (a unanimous centroid collects exactly
        # bootstrap_iteration votes, the largest value the counter must hold)
        runs[0]['bootstrap_iteration'] = (
            65536 if big_query else rng.choice([255, 256, 257]))
    # option combinations: a per-level factor table written against the
    # taxonomy of the REFERENCE (every non-leaf level + 'None', sometimes the
    # leaf level too), alone and together with drop_level / flatten
    hh = tree['hierarchy']
    for ri, run in enumerate(runs):
        if (i + ri) % 2 == 0:
            keys = ['None'] + hh[:-1] + (hh[-1:] if rng.random() < 0.3 else [])
            run['bootstrap_factor_lookup'] = [
                [k, rng.choice([1.0, 0.5, rng.uniform(0.3, 1.0)])]
                for k in keys]
        if len(hh) >= 2 and (i + 2 * ri) % 3 == 0:
            if rng.random() < 0.6:
                run['drop_level'] = rng.choice(hh[:-1])
            else:
                run['flatten'] = True
            if rng.random() < 0.3 and run['drop_level'] is not None:
                run['flatten'] = True
    return {'kind': 'chain', 'tree': tree, 'genes': genes, 'X': X,
            'labels': labels, 'query_genes': qgenes, 'runs': runs,
            'collide': collide, 'wide_query': wide,
            'ref_encoding': rng.choice(['dense', 'csr']),
            'n_per_utility': rng.randint(2, 6),
            'rows_at_a_time': rng.randint(3, 40)}


def check_case(ctx, case):
    from cell_type_mapper.diff_exp.precompute_from_anndata import (
        precompute_summary_stats_from_h5ad)
    from cell_type_mapper.diff_exp.markers import (
        find_markers_for_all_taxonomy_pairs)
    from cell_type_mapper.type_assignment.marker_cache_v2 import (
        create_marker_gene_lookup_from_ref_list)
    from cell_type_mapper.taxonomy.taxonomy_tree import TaxonomyTree

    tree = case['tree']
    tv = eu.TreeView(tree)
    h = tree['hierarchy']
    genes = case['genes']
    if case.get('collide'):
        ctx.count('chain:name-reused-across-levels')
    if case.get('wide_query'):
        ctx.count('chain:wide-query-' + case['wide_query'])

    def violation(cls, what, found=True, **extra):
        d = dict(case)
        d.update(extra)
        if not found:
            d['broken'] = what
        ctx.violation('%s/%s' % (SIG, cls), what, d, found_input=found)

    obs = {l: [tv.anc[leaf][l] for leaf in case['labels']] for l in h}
    with pipeline.workdir() as d:
        ref = pipeline.write_h5ad(
            d / 'ref.h5ad', np.array(case['X'], dtype=float),
            ['r%d' % k for k in range(len(case['X']))], genes,
            encoding=case['ref_encoding'], obs_cols=obs)
        stage = 'precompute'
        try:
            with pipeline.quiet():
                precompute_summary_stats_from_h5ad(
                    data_path=ref, column_hierarchy=list(h),
                    taxonomy_tree=None, output_path=d / 'stats.h5',
                    rows_at_a_time=case['rows_at_a_time'],
                    normalization='raw', tmp_dir=d, n_processors=2)
            stage = 'reference-markers'
            with h5py.File(d / 'stats.h5', 'r') as src:
                tt = TaxonomyTree.from_str(
                    src['taxonomy_tree'][()].decode('utf-8'))
            with pipeline.quiet():
                find_markers_for_all_taxonomy_pairs(
                    precomputed_stats_path=d / 'stats.h5', taxonomy_tree=tt,
                    output_path=d / 'refmarkers.h5', n_processors=2,
                    tmp_dir=d, max_gb=1, n_valid=10)
            with h5py.File(d / 'refmarkers.h5', 'a') as dst:
                ref_marker_genes = json.loads(
                    dst['gene_names'][()].decode('utf-8'))
                p2i = json.loads(dst['pair_to_idx'][()].decode('utf-8'))
                sbp = {k: dst['sparse_by_pair'][k][()] for k in
                       ('up_pair_idx', 'up_gene_idx', 'down_pair_idx',
                        'down_gene_idx')}
                if 'metadata' not in dst:
                    dst.create_dataset('metadata', data=json.dumps(
                        {'precomputed_path': str(d / 'stats.h5')}
                    ).encode('utf-8'))
            stage = 'query-markers'
            with pipeline.quiet():
                lookup = create_marker_gene_lookup_from_ref_list(
                    reference_marker_path_list=[d / 'refmarkers.h5'],
                    query_gene_names=list(case['query_genes']),
                    n_per_utility=case['n_per_utility'],
                    n_per_utility_override=None, n_processors=2,
                    behemoth_cutoff=1000, tmp_dir=d)
        except Exception as e:   # noqa
            violation('stage/%s-fails/%s' % (stage, type(e).__name__),
                      'stage %s does not accept what the previous stage '
                      'produced: %r' % (stage, e))
            return
        (d / 'markers.json').write_text(json.dumps(lookup))
        sgenes, means, stree = eu.read_stats_means(d / 'stats.h5')
        # ---- names consistent across the files
        if sgenes != genes or ref_marker_genes != sgenes:
            violation('names/genes', 'gene names of statistics / reference '
                      'marker file differ from the reference')
            return
        stv = eu.TreeView(stree)
        if stv.hierarchy != h or any(
                stv.anc.get(l) != tv.anc[l] for l in tv.leaves) or \
                sorted(stv.leaves) != sorted(tv.leaves):
            violation('names/tree', 'taxonomy in the statistics file is not '
                      'the tree of the reference labels')
            return
        parents = set(['None'])
        for lv in h[:-1]:
            for n in tree[lv]:
                parents.add('%s/%s' % (lv, n))
        qset = set(case['query_genes'])
        for k, v in lookup.items():
            if k in ('log', 'metadata'):
                continue
            if k not in parents or any(
                    g not in qset or g not in genes for g in v):
                violation('names/marker-table', 'marker table key %r / '
                          'genes not in taxonomy / files' % (k,))
                return
        # every selected marker of a parent is, in the reference-marker
        # file, a marker (up or down) of some pair of leaves below that
        # parent that sit in different children
        leaf_level = h[-1]

        def pair_genes(a, b):
            dd = p2i[leaf_level]
            idx = dd[a][b] if (a in dd and b in dd[a]) else dd[b][a]
            up = sbp['up_gene_idx'][sbp['up_pair_idx'][idx]:
                                    sbp['up_pair_idx'][idx + 1]]
            dn = sbp['down_gene_idx'][sbp['down_pair_idx'][idx]:
                                      sbp['down_pair_idx'][idx + 1]]
            return set(ref_marker_genes[g] for g in up) | \
                set(ref_marker_genes[g] for g in dn)

        for k, v in lookup.items():
            if k in ('log', 'metadata') or not v:
                continue
            pl, pn = (None, None) if k == 'None' else k.split('/', 1)
            lv = tv.leaves_under(pl, pn)
            cl, _ = tv.children(h, pl, pn)
            okg = set()
            try:
                for a in lv:
                    for b in lv:
                        if a < b and tv.anc[a][cl] != tv.anc[b][cl]:
                            okg |= pair_genes(a, b)
            except (KeyError, IndexError) as e:
                violation('names/pair-index', 'pair_to_idx of the reference '
                          'marker file does not address the leaf pairs: %r'
                          % (e,))
                return
            if not set(v) <= okg:
                violation('names/marker-not-a-reference-marker',
                          'marker table entry %r lists %r, which the '
                          'reference-marker file does not give for any leaf '
                          'pair below it' % (k, sorted(set(v) - okg)))
                return
        # independent means from the raw counts
        Xr = np.array(case['X'], dtype=float)
        rs = Xr.sum(axis=1)
        ln = np.log2(1.0 + 1.0e6 * (Xr.T / np.where(rs > 0, rs, 1.0))).T
        for leaf in tv.leaves:
            idx = [k for k, lb in enumerate(case['labels']) if lb == leaf]
            if not np.allclose(means[leaf], ln[idx].mean(axis=0),
                               rtol=1e-9, atol=1e-12):
                violation('names/means', 'leaf mean of %r in the statistics '
                          'file is not the mean of its cells' % (leaf,))
                return
        # ---- centroid query
        leaves = sorted(tv.leaves)
        gcol = {g: k for k, g in enumerate(genes)}
        Q = np.zeros((len(leaves), len(case['query_genes'])))
        for r, leaf in enumerate(leaves):
            for c, g in enumerate(case['query_genes']):
                Q[r, c] = means[leaf][gcol[g]] if g in gcol else 1.234
        cell_ids = ['centroid_%d' % r for r in range(len(leaves))]
        home = dict(zip(cell_ids, leaves))
        qpath = pipeline.write_h5ad(d / 'query.h5ad', Q, cell_ids,
                                    case['query_genes'])
        names, qgenes, xlog = eu.read_query(qpath, 'log2CPM')
        if not np.array_equal(xlog, Q):
            raise_infra('query read back differs from what was written')
        inputs = {'ref_genes': sgenes, 'means': means, 'tree': stree,
                  'cell_names': names, 'query_genes': qgenes, 'xlog': xlog}
        results = []
        for ri, opts in enumerate(case['runs']):
            sub = d / ('run%d' % ri)
            sub.mkdir()
            mpath = d / 'markers.json'
            if opts.get('drop_level') is not None:
                # the marker stage is run with the same drop_level (its table
                # then discriminates the grandchildren that become children)
                try:
                    with pipeline.quiet():
                        lk_r = create_marker_gene_lookup_from_ref_list(
                            reference_marker_path_list=[d / 'refmarkers.h5'],
                            query_gene_names=list(case['query_genes']),
                            n_per_utility=case['n_per_utility'],
                            n_per_utility_override=None, n_processors=2,
                            behemoth_cutoff=1000, tmp_dir=d,
                            drop_level=opts['drop_level'])
                except Exception as e:   # noqa
                    violation('stage/query-markers-fails/%s'
                              % type(e).__name__,
                              'marker selection with drop_level=%r: %r'
                              % (opts['drop_level'], e), opts=opts)
                    return
                mpath = d / ('markers_run%d.json' % ri)
                mpath.write_text(json.dumps(lk_r))
            cfg = pipeline.mapping_config(
                qpath, d / 'stats.h5', mpath, sub, sub,
                n_processors=opts['n_processors'],
                chunk_size=opts['chunk_size'],
                bootstrap_factor=opts['bootstrap_factor'],
                bootstrap_iteration=opts['bootstrap_iteration'],
                rng_seed=opts['rng_seed'],
                n_runners_up=opts['n_runners_up'], normalization='log2CPM',
                flatten=opts.get('flatten', False),
                drop_level=opts.get('drop_level'),
                bootstrap_factor_lookup=opts.get('bootstrap_factor_lookup'))
            ctx.count('run:%s%s%s' % (
                'lookup' if opts.get('bootstrap_factor_lookup') else 'factor',
                '+drop' if opts.get('drop_level') else '',
                '+flatten' if opts.get('flatten') else ''))
            results.append((opts, eu.run_traced_mapping(sub, cfg)))
    n_guard = 0
    for opts, res in results:
        guard = {}     # (cell, parent) -> [ok per iteration]

        def on_iteration(cid, parent, cl, lvs, types, it, s, fr, x, refs,
                         guard=guard):
            leaf = home[cid]
            if leaf not in lvs:
                return       # not on the centroid's own path
            j = lvs.index(leaf)
            ok = bool(np.ptp(x) > 0) and not any(
                k != j and fr[k] >= 1.0 - eu.REL for k in range(len(lvs)))
            guard.setdefault((cid, parent, cl), []).append(ok)

        sub_case = dict(case)
        sub_case['opts'] = opts
        if not ep.analyse_run(ctx, SIG, sub_case, res, inputs, opts,
                              do_votes=True, do_c03=False,
                              on_iteration=on_iteration):
            return
        by_id = {r['cell_id']: r for r in res['json']['results']}
        for (cid, parent, cl), oks in guard.items():
            ctx.evaluations += 1
            if not all(oks):
                ctx.count('guard:false')
                continue
            ctx.count('guard:true')
            n_guard += 1
            rec = by_id[cid][cl]
            leaf = home[cid]
            bad = None
            if rec['assignment'] != tv.anc[leaf][cl]:
                bad = 'assignment'
            elif rec['bootstrapping_probability'] != 1.0:
                bad = 'probability'
            elif rec['avg_correlation'] is None or \
                    abs(rec['avg_correlation'] - 1.0) > eu.REL:
                bad = 'correlation'
            elif rec['runner_up_assignment']:
                bad = 'runners-up'
            if bad:
                violation('centroid/' + bad,
                          'centroid of leaf %r at node %r (guard holds on '
                          'all %d subsets): assigned %r with probability %r '
                          'correlation %r' % (
                              leaf, parent, len(oks), rec['assignment'],
                              rec['bootstrapping_probability'],
                              rec['avg_correlation']),
                          opts=opts, cell=cid, node=parent, record=rec)
                return
        # the whole path home when the guard held at every node on it
        for cid, leaf in home.items():
            nodes = [k for k in guard if k[0] == cid]
            if nodes and all(all(guard[k]) for k in nodes):
                rec = by_id[cid]
                if any(rec[l]['assignment'] != tv.anc[leaf][l] for l in h):
                    violation('centroid/path', 'centroid of leaf %r does '
                              'not map to its own ancestors' % (leaf,),
                              opts=opts, cell=cid, record=rec)
                    return
    ctx.extra_cov['guard_true_cases'] = \
        ctx.extra_cov.get('guard_true_cases', 0) + n_guard
    ctx.case(json.dumps(case, sort_keys=True) if n_guard else None,
             sample={'kind': 'chain', 'hierarchy': h,
                     'n_leaves': len(tv.leaves), 'n_genes': len(genes),
                     'runs': case['runs'], 'guard_true': n_guard})


def raise_infra(msg):
    from ctmverif import core
    raise core.InfraError(msg)


def corpus_dir():
    from ctmverif import core
    return core.VERIF / 'corpus' / 'C18'


def run(ctx):
    rng = ctx.rng
    cdir = corpus_dir()
    for f in sorted(cdir.glob('*.json')) if cdir.is_dir() else []:
        replay(ctx, json.loads(f.read_text()), from_corpus=True)
    n = 11 if ctx.tier == 'quick' else 200
    for i in range(n):
        check_case(ctx, gen_case(rng, i))
    if ctx.tier != 'quick':
        # one query with more than 65535 gene columns in front of the markers
        check_case(ctx, gen_case(rng, 1, big_query=66000))
    if not ctx.extra_cov.get('guard_true_cases') and not ctx.violations:
        ctx.violation(SIG + '/vacuous', 'no (centroid, node) with the guard '
                      'true was generated: the check is vacuous', {},
                      found_input=False)
    # name tables linking the stage files (C18 first sentence)
    stagefiles_util.run_c18(ctx)
    # ... and the same stream aimed at the multi-file reference route: >= 2
    # h5ad files that share a base name in different directories, copied to
    # scratch first (copy_data_over=True).  The random stream reaches that
    # combination in ~12% of its cases only.
    _names_aimed_multifile(ctx, 4 if ctx.tier == 'quick' else 24)


def _names_aimed_multifile(ctx, n):
    from props import c09
    plain = c09.RunConfig

    class Aimed(plain):
        def __init__(self, rng, ref, force=None):
            f = dict(force or {})
            if len(ref.names) > 1:
                f.setdefault('files', c09.split_files(
                    rng, len(ref.names), rng.choice([2, 2, 3, 4])))
            f.setdefault('copy_over', True)
            f.setdefault('layout', 'same_base')
            plain.__init__(self, rng, ref, f)

    c09.RunConfig = Aimed
    try:
        stagefiles_util.run_c18(ctx, n=n)
    finally:
        c09.RunConfig = plain


def replay(ctx, data, from_corpus=False):
    d = data.get('detail', data)
    if d.get('kind') == 'names':
        return stagefiles_util.replay_names(ctx, d)
    if d.get('kind') == 'chain':
        check_case(ctx, d)
    elif not from_corpus:
        print('nothing to replay for kind', d.get('kind'))
