"""
C04 — results depend only on inputs and seed, never on scheduling.

Ties to /repo, re-run on every check:
  * every parallel stage (mapping, statistics, reference markers, p-value
    mask, reference markers from the mask, query marker selection, parallel
    transposition) is run on generated inputs under *forced completion
    orders* of its worker processes (harness/ctmverif/schedules.py: per-worker
    pipes; the feasible orders are enumerated by the Lean model), in two
    gating modes; canonical outputs must be identical to the ungated run;
  * the same stages in subprocesses under PYTHONHASHSEED in {0,1,2,random};
  * seed values: two runs each with rng_seed in {0, 1, 2**32-1, 11235813}
    (falsy-but-legal values of an option must behave like any other);
  * host independence: the mapping with n_processors in {17, 24, 40} (more
    than this machine's cores), chunk_size large: chunks as documented for the
    configured count, output equal to the run with the equivalent explicit
    chunk_size; one run under a simulated 2-core host;
  * the mapping under worker counts that induce the same chunks (the chunk
    list is read from the hook trace and compared with the model);
  * re_order_blob against the Lean model on generated blobs (incl. missing
    and repeated cells); write_query_markers_to_h5 / clean_for_json on marker
    tables listed in two different orders (sorted by reference index);
  * the translator's merge discipline for every stage (Generated/Skeleton).
"""
import contextlib
import itertools
import json
import os
import pathlib
import random
import subprocess
import sys

from ctmverif import core, faults, pipeline, schedules, stagefix
from ctmverif import translate as translator
from props import c14 as c14suite

RULE = ('generated reference problems (5-8 leaves, 2-3 levels, 10-16 genes, '
        '8-20 query cells); per stage the ungated run fixes n_workers, then '
        'every (thorough; 8 sampled on the 4th problem) / 5 (quick) of the completion orders feasible for '
        '(n_workers, n_processors) as enumerated by the Lean model, gating '
        'modes entry/exit; hash seeds {0,1,2,3} (quick; wide-taxonomy mapping and statistics-from-'
        'columns in all four, the seven stage fixtures in two) / {0,1,2,3,random} '
        '(thorough); worker counts 2..4 with equal effective chunk size. '
        'non-trivial = forced order different from dispatch order on a stage '
        'with >=2 workers, or a pair of runs with different hash seed / '
        'worker count; distinct by (stage, problem, n_processors, order, '
        'mode)')
TRUSTED = ['harness/ctmverif/schedules.py (completion order forced by pipes '
           'and /proc zombie state)',
           'canonicalisation in harness/ctmverif/stagefix.py (HDF5 datasets '
           'byte-wise; mapping JSON minus config/log/metadata; selection '
           'result as a mapping)',
           'harness/ctmverif/translate.py']
ASSUMPTIONS = ['interleavings *inside* a worker and BLAS threading are not '
               'controlled (OMP_NUM_THREADS=1)',
               'keys are distinct (cell ids, scratch paths, first pair '
               'index, parents): Nodup hypotheses of the theorems',
               'the iteration order of the dict returned by the query-marker '
               'selection is not part of its result (it follows the '
               'completion order)']

FIXTURES = ['mapping', 'stats', 'refMarkers', 'pMask', 'pMarkers',
            'selection', 'transpose']


def canon_of(st, fixture):
    c = st.canonical()
    return json.loads(json.dumps(c, sort_keys=True))


def observe_for(st):
    """what to record about every worker at dispatch (mapping: its row range
    and the state of the generator it is handed)"""
    if not st.name.startswith('mapping'):
        return None

    def observe(index, kwargs):
        state = kwargs['rng'].bit_generator.state
        return [int(kwargs['r0']), int(kwargs['r1']),
                [int(state['state']['state']), int(state['state']['inc'])]]
    return observe


def expected_seeds(st, chunks):
    """independent statement of seed_by_dispatch: chunk k gets
    default_rng(k-th draw of default_rng(rng_seed).integers(99, 2**32))"""
    import numpy as np
    parent = np.random.default_rng(st.rng_seed)
    out = []
    for r0, r1 in chunks:
        child = np.random.default_rng(parent.integers(99, 2 ** 32))
        state = child.bit_generator.state
        out.append([r0, r1, [int(state['state']['state']),
                             int(state['state']['inc'])]])
    return out


def partition_problem(chunks, n_rows):
    """the row chunks handed out, in dispatch order, must tile [0, n_rows):
    that - not a particular chunk size - is what the property needs"""
    pos = 0
    for r0, r1 in chunks:
        if r0 != pos or r1 <= r0:
            return 'chunk [%d, %d) does not continue at row %d' % (r0, r1, pos)
        pos = r1
    if pos != n_rows:
        return 'chunks end at row %d of %d' % (pos, n_rows)
    return None


def check_seeds(ctx, st, n_proc, observed, detail):
    """mapping: the chunks dispatched tile the rows, and every worker was
    seeded by dispatch index (chunk k <- k-th draw of the parent generator),
    whatever the schedule and whatever the chunk size"""
    n_rows = len(st.prob.query_ids)
    chunks = [[o[0], o[1]] for o in observed]
    st.last_chunks = chunks
    ctx.count('seed-lists-checked')
    bad = partition_problem(chunks, n_rows)
    if bad:
        d = dict(detail)
        d.update(kind='seeds', observed=observed)
        ctx.violation('C04/nproc/chunks-not-a-partition',
                      'mapping: the row chunks dispatched do not tile the '
                      '%d query rows: %s' % (n_rows, bad), d)
        return False
    want = expected_seeds(st, chunks)
    if observed != want:
        d = dict(detail)
        d.update(kind='seeds', observed=observed, expected=want)
        ctx.violation('C04/seed/not-kth-draw',
                      'mapping: the generators handed to the workers are not '
                      'default_rng(k-th draw of the parent generator) in '
                      'dispatch order', d)
        return False
    if ctx.driver_ok and chunks:
        # the model's chunk iterator with the OBSERVED step
        step = chunks[0][1] - chunks[0][0]
        m = ctx.model('procs.chunksOf', {'nRows': n_rows, 'step': step})
        if m != chunks:
            ctx.disagreements_checked += 1
            d = dict(detail)
            d.update(kind='seeds', observed=observed, model=m,
                     broken='correspondence CTM.Procs.chunks ~ the row '
                            'iterator of run_type_assignment_on_h5ad_cpu')
            ctx.violation('C04/correspondence/chunks',
                          'the dispatched chunks are not range(0, n, step) '
                          'for the observed step', d, found_input=False)
    return True


def run_plain(st, n_proc, ctx=None, detail=None):
    err, timed_out, rec = c14suite.run_stage(
        st, n_proc, faults.count_workers(st, observe_for(st)))
    if err is not None or timed_out:
        raise core.InfraError('stage %s does not run: %s' % (st.name, err))
    if ctx is not None and st.name.startswith('mapping'):
        check_seeds(ctx, st, n_proc, rec.observed, detail or {})
    return rec.started


def diff_keys(a, b):
    if isinstance(a, dict) and isinstance(b, dict):
        out = []
        for k in sorted(set(a) | set(b)):
            if a.get(k) != b.get(k):
                sub = diff_keys(a.get(k), b.get(k))
                out.append(k if not sub else '%s.%s' % (k, sub[0]))
        return out
    return []


def check_order(ctx, fixture, st, prob_seed, n_leaves, n_proc, order, mode,
                base, n_workers):
    detail = {'kind': 'order', 'fixture': fixture, 'prob_seed': prob_seed,
              'n_leaves': n_leaves, 'n_processors': n_proc,
              'order': list(order), 'mode': mode}
    c14suite.clear(st)
    err, timed_out, rec = c14suite.run_stage(
        st, n_proc, schedules.forced_order(st, order, mode,
                                           observe=observe_for(st)))
    if rec.gate_timeouts or timed_out:
        raise core.InfraError(
            'could not force completion order %r (%s) on %s: %d gate '
            'timeouts' % (order, mode, fixture, rec.gate_timeouts))
    ident = list(order) == sorted(order)
    ctx.case(None if ident or n_workers < 2 else
             ('order', fixture, prob_seed, n_proc, tuple(order), mode),
             sample=detail if not ident else None)
    ctx.count('orders:%s' % fixture)
    ctx.count('mode:' + mode)
    ctx.traces += 1
    if err is not None:
        ctx.violation('C04/order/%s/raises' % fixture,
                      '%s fails under completion order %r (%s): %s'
                      % (fixture, order, mode, err), detail)
        return
    if fixture == 'mapping' and not check_seeds(ctx, st, n_proc,
                                                rec.observed, detail):
        return
    got = canon_of(st, fixture)
    if got != base:
        detail['differs_in'] = diff_keys(base, got)[:8]
        ctx.violation('C04/order/%s/output-differs' % fixture,
                      '%s: output under completion order %r (%s) differs '
                      'from the ungated run in %s'
                      % (fixture, order, mode, detail['differs_in']), detail)


def read_trace(prefix):
    ev = []
    for f in sorted(pathlib.Path(prefix).parent.glob(
            pathlib.Path(prefix).name + '.*')):
        for line in f.read_text().splitlines():
            ev.append(json.loads(line))
        f.unlink()
    return ev


def check_nproc(ctx, st, prob_seed, n_leaves, base_np, base):
    """mapping: two worker counts that induce the same chunks (as observed
    at dispatch) give identical outputs"""
    n_rows = len(st.prob.query_ids)
    c14suite.clear(st)
    run_plain(st, base_np, ctx, {'kind': 'nproc', 'prob_seed': prob_seed,
                                 'n_leaves': n_leaves,
                                 'n_processors': [base_np, base_np]})
    base_chunks = list(st.last_chunks)
    for p in (1, 2, 3, 4):
        if p == base_np:
            continue
        detail = {'kind': 'nproc', 'prob_seed': prob_seed,
                  'n_leaves': n_leaves, 'n_processors': [base_np, p],
                  'n_rows': n_rows, 'chunk_size': st.chunk_size}
        c14suite.clear(st)
        run_plain(st, p, ctx, detail)
        chunks = list(st.last_chunks)
        if chunks != base_chunks:
            ctx.count('nproc:different-chunks')
            continue
        ctx.case(('nproc', prob_seed, base_np, p), sample=detail)
        ctx.count('nproc-pairs')
        got = canon_of(st, 'mapping')
        detail['chunks'] = chunks
        if got != base:
            detail['differs_in'] = diff_keys(base, got)[:8]
            ctx.violation('C04/nproc/output-differs',
                          'mapping with n_processors=%d and %d uses the same '
                          'chunks but the outputs differ in %s'
                          % (base_np, p, detail['differs_in']), detail)


@contextlib.contextmanager
def simulated_cores(n):
    """make the host look like an `n`-core machine to the harness process (and
    to the workers it forks)"""
    import multiprocessing
    saved = (multiprocessing.cpu_count, os.cpu_count,
             getattr(os, 'sched_getaffinity', None),
             getattr(os, 'process_cpu_count', None))
    multiprocessing.cpu_count = lambda: n
    os.cpu_count = lambda: n
    if saved[2] is not None:
        os.sched_getaffinity = lambda pid=0: set(range(n))
    if saved[3] is not None:
        os.process_cpu_count = lambda: n
    try:
        yield
    finally:
        multiprocessing.cpu_count, os.cpu_count = saved[0], saved[1]
        if saved[2] is not None:
            os.sched_getaffinity = saved[2]
        if saved[3] is not None:
            os.process_cpu_count = saved[3]


def traced_run(ctx, st, n_proc, detail):
    """one mapping run with the hook trace on: (chunks, canonical output)"""
    c14suite.clear(st)
    trace = st.d / 'trace_host'
    os.environ['CELL_TYPE_MAPPER_VERIF_TRACE'] = str(trace)
    try:
        run_plain(st, n_proc, ctx, detail)
    finally:
        os.environ.pop('CELL_TYPE_MAPPER_VERIF_TRACE', None)
    ev = read_trace(trace)
    chunks = sorted([e['r0'], e['r1']] for e in ev if e['kind'] == 'chunk')
    return chunks, canon_of(st, 'mapping')


def check_host(ctx, prob_seed, procs=(17, 24, 40), simulate=True, st=None):
    """"the result depends only on inputs, configuration and seed, not on the
    host": with a large `chunk_size` (the worker count decides the chunks) and
    n_processors above the number of cores of this machine,
      (i)  the run on this host and the run on a simulated 64-core host give
           the same chunks and the same output;
      (ii) the output equals that of a run with 2 processes and the observed
           chunk size asked for explicitly, when that run dispatches the same
           chunks (same chunks => identical mapping);
      (iii) n_processors=4 on a simulated 2-core host equals the unpatched
           run."""
    if st is None:
        prob = c14suite.make_problem(prob_seed, 5)
        with pipeline.workdir('ctmverif_c04_') as d:
            with pipeline.quiet():
                st = stagefix.HOST_FIXTURE(prob, d)
            return check_host(ctx, prob_seed, procs, simulate, st)
    n_rows = len(st.prob.query_ids)
    big = type(st).chunk_size

    def one(n_proc, detail):
        c14suite.clear(st)
        run_plain(st, n_proc, ctx, detail)
        return list(st.last_chunks), canon_of(st, 'mapping')

    def sizes(chunks):
        return sorted(set(b - a for a, b in chunks))

    for p in procs:
        detail = {'kind': 'host', 'prob_seed': prob_seed, 'n_processors': p,
                  'n_rows': n_rows, 'chunk_size': big,
                  'host_cores': os.cpu_count()}
        st.chunk_size = big
        chunks, got = one(p, detail)
        ctx.case(('host', prob_seed, p), sample=detail)
        ctx.count('host:n_processors=%d' % p)
        detail['chunks'] = chunks
        with simulated_cores(64):
            chunks64, got64 = one(p, detail)
        if chunks64 != chunks or got64 != got:
            detail['chunks_on_64_cores'] = chunks64
            detail['differs_in'] = diff_keys(got, got64)[:8]
            ctx.violation('C04/host/output-depends-on-core-count',
                          'mapping with n_processors=%d, %d cells: on this '
                          '%s-core host the chunks have sizes %r, on a host '
                          'that reports 64 cores %r; outputs differ in %s'
                          % (p, n_rows, os.cpu_count(), sizes(chunks),
                             sizes(chunks64), detail['differs_in']),
                          dict(detail))
        # the observed chunk size asked for explicitly, 2 processes
        if chunks:
            step = chunks[0][1] - chunks[0][0]
            st.chunk_size = step
            d2 = dict(detail)
            d2['n_processors'] = 2
            d2['chunk_size'] = step
            chunks2, ref = one(2, d2)
            st.chunk_size = big
            if chunks2 == chunks and ref != got:
                detail['reference'] = {'n_processors': 2, 'chunk_size': step}
                detail['differs_in'] = diff_keys(ref, got)[:8]
                ctx.violation('C04/nproc/output-differs',
                              'mapping with n_processors=%d, chunk_size=%d '
                              'and with n_processors=2, chunk_size=%d '
                              'dispatches the same chunks but the outputs '
                              'differ in %s'
                              % (p, big, step, detail['differs_in']), detail)
    if simulate:
        detail = {'kind': 'host', 'prob_seed': prob_seed, 'n_processors': 4,
                  'n_rows': n_rows, 'chunk_size': big, 'simulated_cores': 2}
        st.chunk_size = big
        chunks, plain = one(4, detail)
        with simulated_cores(2):
            chunks_s, sim = one(4, detail)
        ctx.case(('host-sim', prob_seed), sample=detail)
        ctx.count('host:simulated-2-cores')
        if chunks_s != chunks or sim != plain:
            detail['chunks'] = chunks
            detail['chunks_simulated'] = chunks_s
            detail['differs_in'] = diff_keys(plain, sim)[:8]
            ctx.violation('C04/host/output-depends-on-core-count',
                          'mapping with n_processors=4: on a host that '
                          'reports 2 cores the chunks are %r sized instead '
                          'of %r and the output differs in %s'
                          % (sizes(chunks_s), sizes(chunks),
                             detail['differs_in']), detail)


SEED_VALUES = (0, 1, 2 ** 32 - 1, 11235813)


def check_seed_values(ctx, prob_seed, n_leaves=6, st=None, seeds=SEED_VALUES):
    """same inputs, same configuration, same seed => same result, for the
    seed values a user can legally configure - in particular the falsy-but-
    legal 0, the smallest positive, the largest 32-bit and the documented
    default.  Two runs per value; the generator states handed to the workers
    must also be the k-th draws of default_rng(<that seed>)."""
    if st is None:
        prob = c14suite.make_problem(prob_seed, n_leaves)
        with pipeline.workdir('ctmverif_c04_') as d:
            with pipeline.quiet():
                st = stagefix.Mapping(prob, d)
            return check_seed_values(ctx, prob_seed, n_leaves, st, seeds)
    saved = st.rng_seed
    try:
        outs = {}
        for seed in seeds:
            st.rng_seed = seed
            detail = {'kind': 'seed_value', 'prob_seed': prob_seed,
                      'n_leaves': n_leaves, 'n_processors': 2,
                      'rng_seed': seed}
            c14suite.clear(st)
            run_plain(st, 2, ctx, detail)
            first = canon_of(st, 'mapping')
            c14suite.clear(st)
            run_plain(st, 2, ctx, detail)
            second = canon_of(st, 'mapping')
            ctx.case(('seed_value', prob_seed, seed), sample=detail)
            ctx.count('seed-value:%d' % seed)
            outs[seed] = first
            if first != second:
                detail['differs_in'] = diff_keys(first, second)[:8]
                ctx.violation('C04/seed-value/rerun-differs',
                              'mapping with rng_seed=%d: two runs on the same '
                              'inputs and configuration differ in %s'
                              % (seed, detail['differs_in']), detail)
    finally:
        st.rng_seed = saved


def check_reorder(ctx, rng, n_cases):
    """re_order_blob vs the model (and an independent statement of it)"""
    from cell_type_mapper.utils import output_utils
    real_read = output_utils.read_df_from_h5ad
    for _ in range(n_cases):
        n = rng.randint(0, 7)
        ids = rng.sample(range(30), n)
        order = list(ids)
        rng.shuffle(order)
        blob = [(c, rng.randrange(100)) for c in ids]
        rng.shuffle(blob)
        kind = rng.choice(['perm', 'perm', 'missing', 'repeat', 'extra'])
        if kind == 'missing' and blob:
            blob.pop(rng.randrange(len(blob)))
        elif kind == 'repeat' and blob:
            c = rng.choice(blob)[0]
            blob.insert(rng.randrange(len(blob) + 1), (c, rng.randrange(100)))
        elif kind == 'extra':
            blob.append((99, 5))
        import pandas as pd
        frame = pd.DataFrame(index=pd.Index(['c%d' % c for c in order]))
        output_utils.read_df_from_h5ad = lambda h5ad_path, df_name: frame
        try:
            try:
                got = output_utils.re_order_blob(
                    results_blob=[{'cell_id': 'c%d' % c, 'v': v}
                                  for c, v in blob], query_path='unused')
                impl = [[int(g['cell_id'][1:]), g['v']] for g in got]
            except KeyError:
                impl = None
        finally:
            output_utils.read_df_from_h5ad = real_read
        ctx.case(('reorder', tuple(blob), tuple(order)) if len(blob) > 1
                 else None, sample=None)
        ctx.count('reorder:' + kind)
        detail = {'kind': 'reorder', 'blob': blob, 'order': order,
                  'impl': impl}
        # independent statement: last record of each cell, in file order
        last = {}
        for c, v in blob:
            last[c] = v
        want = [[c, last[c]] for c in order] \
            if all(c in last for c in order) else None
        if impl != want:
            ctx.violation('C04/reorder/' + kind,
                          're_order_blob: expected %r got %r' % (want, impl),
                          detail)
            continue
        if ctx.driver_ok:
            m = ctx.model('procs.reorderBlob', {'blob': blob, 'order': order})
            if m != impl:
                ctx.disagreements_checked += 1
                detail['model'] = m
                detail['broken'] = 'correspondence CTM.Procs.reorderBlob ~ ' \
                                   're_order_blob'
                ctx.violation('C04/correspondence/reorderBlob',
                              'correspondence procs.reorderBlob no longer '
                              'checks', detail, found_input=False)


def check_marker_cache_order(ctx, rng, n_cases):
    """"marker lists sorted by reference gene index before use"
    (write_query_markers_to_h5): the cache written for a marker table does
    not depend on the order in which each parent's markers are listed (the
    order a set would be enumerated in); sets go through clean_for_json
    sorted"""
    with pipeline.workdir('ctmverif_c04_') as d:
        for case in range(n_cases):
            n_ref = rng.randint(3, 12)
            ref = ['g%d' % i for i in rng.sample(range(40), n_ref)]
            query = list(ref)
            rng.shuffle(query)
            query = query + ['q%d' % i for i in range(rng.randint(0, 3))]
            rng.shuffle(query)
            parents = ['None'] + ['lvl/n%d' % i
                                  for i in range(rng.randint(0, 3))]
            lookup = {p: rng.sample(ref, rng.randint(0, n_ref))
                      for p in parents}
            shuffled = {}
            for p in reversed(parents):
                l = list(lookup[p])
                rng.shuffle(l)
                shuffled[p] = l
            items = rng.sample(range(100), rng.randint(0, 8))
            cache_case(ctx, d, {'kind': 'cache_order', 'ref': ref,
                                'query': query, 'lookup': lookup,
                                'shuffled': shuffled, 'items': items})


def cache_case(ctx, d, detail):
    import h5py
    from cell_type_mapper.type_assignment.marker_cache_v2 import (
        write_query_markers_to_h5)
    from cell_type_mapper.utils.utils import clean_for_json
    ref, query = detail['ref'], detail['query']
    lookup, shuffled = detail['lookup'], detail['shuffled']
    items = detail.get('items', [])
    parents = list(lookup.keys())
    detail = dict(detail)
    outs = []
    for i, lk in enumerate((lookup, shuffled)):
        path = pathlib.Path(d) / ('cache_%d.h5' % i)
        if path.exists():
            path.unlink()
        with pipeline.quiet():
            write_query_markers_to_h5(
                marker_lookup=lk, reference_gene_names=ref,
                query_gene_names=query, output_cache_path=path)
        got = {}
        with h5py.File(path, 'r') as src:
            got['all_query_markers'] = src['all_query_markers'][()].tolist()
            got['all_reference_markers'] = \
                src['all_reference_markers'][()].tolist()
            got['parent_node_list'] = json.loads(
                src['parent_node_list'][()].decode('utf-8'))
            for p in parents:
                got[p] = [src[p]['reference'][()].tolist(),
                          src[p]['query'][()].tolist()]
        outs.append(got)
    ctx.case(('cache', json.dumps(lookup, sort_keys=True)), sample=None)
    ctx.count('marker-cache-order')
    # independent statement
    want = {}
    used = set(g for p in parents for g in lookup[p])
    want['all_reference_markers'] = sorted(ref.index(g) for g in used)
    want['all_query_markers'] = sorted(query.index(g) for g in used)
    want['parent_node_list'] = sorted(parents)
    for p in parents:
        gs = sorted(lookup[p], key=ref.index)
        want[p] = [[ref.index(g) for g in gs], [query.index(g) for g in gs]]
    if outs[0] != want or outs[1] != want:
        bad = 0 if outs[0] != want else 1
        detail['got'] = outs[bad]
        detail['want'] = want
        ctx.violation('C04/enum/marker-cache-depends-on-list-order',
                      'write_query_markers_to_h5: cache differs from the '
                      'index-sorted one in %s'
                      % diff_keys(want, outs[bad])[:5], detail)
        return
    # sets through clean_for_json
    cj = clean_for_json({'s': set(items),
                         't': set('g%d' % i for i in items)})
    if cj != {'s': sorted(items), 't': sorted('g%d' % i for i in items)}:
        detail['clean_for_json'] = cj
        ctx.violation('C04/enum/clean_for_json-unsorted',
                      'clean_for_json does not sort a set: %r' % (cj,),
                      detail)
        return
    if ctx.driver_ok:
        for p in parents:
            keys = [ref.index(g) for g in lookup[p]]
            m = ctx.model('procs.sortKeys', {'keys': keys})
            if m != outs[0][p][0]:
                ctx.disagreements_checked += 1
                detail['model'] = m
                detail['broken'] = 'correspondence CTM.Procs.sortKeys ~ ' \
                                   'write_query_markers_to_h5'
                ctx.violation('C04/correspondence/sortKeys',
                              'correspondence procs.sortKeys no longer '
                              'checks', detail, found_input=False)
                break


def hash_seed_runs(ctx, prob_seed, n_leaves, n_proc, base, seeds,
                   full_seeds=None):
    """separate interpreter runs under PYTHONHASHSEED = each of `seeds`.
    Every run does the wide-taxonomy fixtures (stagefix.HASHSEED_EXTRA: the
    mapping with >= 32 cells per chunk over >= 3 sibling parents per level,
    the statistics with the taxonomy read from label columns); the runs in
    `full_seeds` (default: all) also do the seven stage fixtures.  Each
    result is compared with the in-process run (`base`) and with the first
    subprocess run."""
    full_seeds = list(seeds) if full_seeds is None else full_seeds
    env = dict(os.environ)
    env['PYTHONPATH'] = os.pathsep.join(
        [str(core.VERIF / 'harness')] +
        ([env['PYTHONPATH']] if env.get('PYTHONPATH') else []))
    first = {}
    for hs in seeds:
        # the selection gets its query gene names as a set (what the CLI
        # passes when there is no query file): set iteration order is what
        # the hash seed changes
        spec = {'prob_seed': prob_seed, 'n_leaves': n_leaves,
                'n_proc': n_proc, 'wide': True,
                'fixtures': FIXTURES if hs in full_seeds else [],
                'selection_query_as_set': True}
        # one after the other: each run starts up to n_proc workers itself
        e = dict(env)
        e['PYTHONHASHSEED'] = hs
        p = subprocess.Popen(
            [sys.executable, '-m', 'ctmverif.stagefix', json.dumps(spec)],
            env=e, stdout=subprocess.PIPE, stderr=subprocess.PIPE,
            text=True)
        out, errtxt = p.communicate(timeout=300)
        line = [l for l in out.splitlines() if l.startswith('CANONICAL ')]
        if p.returncode != 0 or not line:
            raise core.InfraError('hash-seed run %s failed: %s'
                                  % (hs, errtxt[-500:]))
        got = json.loads(line[-1][len('CANONICAL '):])
        key_order = got.pop('selection.key_order', None)
        for fixture in sorted(got):
            detail = {'kind': 'hashseed', 'fixture': fixture,
                      'prob_seed': prob_seed, 'n_leaves': n_leaves,
                      'n_processors': n_proc, 'PYTHONHASHSEED': hs}
            ctx.case(('hashseed', fixture, prob_seed, hs), sample=None)
            ctx.count('hashseed:' + hs)
            refs = []
            if fixture in base:
                refs.append(('the in-process run', base[fixture]))
            if fixture in first:
                refs.append(('the run under PYTHONHASHSEED=%s'
                             % first[fixture][0], first[fixture][1]))
            else:
                first[fixture] = (hs, got[fixture])
            for what, ref in refs:
                if got[fixture] != ref:
                    detail['compared_with'] = what
                    detail['differs_in'] = diff_keys(ref, got[fixture])[:8]
                    ctx.violation(
                        'C04/hashseed/%s/output-differs' % fixture,
                        '%s: output under PYTHONHASHSEED=%s differs from '
                        '%s in %s' % (fixture, hs, what,
                                      detail['differs_in']), detail)
                    break
        ctx.log('hash seed %s: selection key order %r' % (hs, key_order))


def wide_base(prob_seed):
    """in-process run of the wide-taxonomy fixtures"""
    with pipeline.workdir('ctmverif_c04_') as d:
        with pipeline.quiet():
            out = stagefix.run_wide_canonical(prob_seed, d)
    return json.loads(json.dumps(out, sort_keys=True))


def run_problem(ctx, prob_seed, n_leaves, n_proc, n_orders, hash_seeds,
                full_seeds=None):
    rng = ctx.rng
    prob = c14suite.make_problem(prob_seed, n_leaves)
    base_all = {}
    with pipeline.workdir('ctmverif_c04_') as d:
        for fixture in FIXTURES:
            with pipeline.quiet():
                st = stagefix.STAGES[fixture](prob, d)
            n_workers = run_plain(st, n_proc, ctx, {
                'kind': 'rerun', 'fixture': fixture, 'prob_seed': prob_seed,
                'n_leaves': n_leaves, 'n_processors': n_proc})
            base = canon_of(st, fixture)
            base_all[fixture] = base
            ctx.count('workers:%s:%d' % (fixture, n_workers))
            # a second ungated run: plain run-to-run determinism
            c14suite.clear(st)
            run_plain(st, n_proc)
            ctx.case(('rerun', fixture, prob_seed, n_proc))
            if canon_of(st, fixture) != base:
                ctx.violation('C04/rerun/%s/output-differs' % fixture,
                              '%s: two identical runs give different '
                              'outputs' % fixture,
                              {'kind': 'rerun', 'fixture': fixture,
                               'prob_seed': prob_seed, 'n_leaves': n_leaves,
                               'n_processors': n_proc})
                continue
            if ctx.driver_ok:
                orders = ctx.model('procs.completionOrders',
                                   {'nWorkers': n_workers, 'nProc': n_proc})
            else:
                orders = [p for p in itertools.permutations(range(n_workers))
                          if all(w + 1 <= sum(1 for x in p[:i] if x < w)
                                 + n_proc for i, w in enumerate(p))]
            ctx.count('feasible_orders:%s' % fixture, len(orders))
            chosen = orders if n_orders is None else \
                schedules.sample_orders(orders, n_orders, rng)
            for i, order in enumerate(chosen):
                modes = ['entry', 'exit'] if n_orders is None else \
                    [['entry', 'exit'][i % 2]]
                for mode in modes:
                    check_order(ctx, fixture, st, prob_seed, n_leaves,
                                n_proc, order, mode, base, n_workers)
            if fixture == 'mapping':
                check_nproc(ctx, st, prob_seed, n_leaves, n_proc, base)
            c14suite.clear(st)
    if hash_seeds:
        base_all.update(wide_base(prob_seed))
        hash_seed_runs(ctx, prob_seed, n_leaves, n_proc, base_all, hash_seeds,
                       full_seeds)


def translate(ctx):
    changed, stages, shape = translator.regenerate(core.REPO, core.LEAN)
    ctx.log('translate: Skeleton.lean %s' % ('rewritten' if changed
                                             else 'unchanged'))
    ctx.extra_cov['skeleton_changed_vs_golden'] = changed
    ctx.extra_cov['merge_disciplines'] = {s['name']: s['merge']
                                          for s in stages}


def run(ctx):
    cdir = core.VERIF / 'corpus' / 'C04'
    for f in sorted(cdir.glob('*.json')) if cdir.is_dir() else []:
        replay(ctx, json.loads(f.read_text()), from_corpus=True)
    rng = ctx.rng
    check_reorder(ctx, rng, 300 if ctx.tier == 'quick' else 2000)
    check_marker_cache_order(ctx, rng, 40 if ctx.tier == 'quick' else 300)
    check_host(ctx, rng.randrange(2 ** 31))
    check_seed_values(ctx, rng.randrange(2 ** 31))
    if ctx.tier == 'quick':
        run_problem(ctx, rng.randrange(2 ** 31), rng.choice([7, 8]), 3,
                    n_orders=5, hash_seeds=['0', '1', '2', '3'],
                    full_seeds=['0', '3'])
    else:
        run_problem(ctx, rng.randrange(2 ** 31), 8, 4, n_orders=None,
                    hash_seeds=['0', '1', '2', '3', 'random'])
        run_problem(ctx, rng.randrange(2 ** 31), 7, 2, n_orders=None,
                    hash_seeds=[])
        run_problem(ctx, rng.randrange(2 ** 31), 6, 3, n_orders=None,
                    hash_seeds=[])
        run_problem(ctx, rng.randrange(2 ** 31), 8, 3, n_orders=8,
                    hash_seeds=['1', '2', 'random'], full_seeds=['random'])


def replay(ctx, data, from_corpus=False):
    d = data.get('detail', data)
    kind = d.get('kind')
    if kind == 'seeds':
        prob = c14suite.make_problem(d['prob_seed'], d.get('n_leaves'))
        with pipeline.workdir('ctmverif_c04_') as wd:
            with pipeline.quiet():
                st = stagefix.Mapping(prob, wd)
            np_ = d['n_processors']
            np_ = np_[-1] if isinstance(np_, list) else np_
            ctx.case(None)
            run_plain(st, np_, ctx, {k: v for k, v in d.items()
                                     if k not in ('observed', 'expected')})
    elif kind in ('order', 'rerun'):
        prob = c14suite.make_problem(d['prob_seed'], d.get('n_leaves'))
        with pipeline.workdir('ctmverif_c04_') as wd:
            with pipeline.quiet():
                st = stagefix.STAGES[d['fixture']](prob, wd)
            n_workers = run_plain(st, d['n_processors'])
            base = canon_of(st, d['fixture'])
            if kind == 'order':
                check_order(ctx, d['fixture'], st, d['prob_seed'],
                            d.get('n_leaves'), d['n_processors'], d['order'],
                            d['mode'], base, n_workers)
            else:
                c14suite.clear(st)
                run_plain(st, d['n_processors'])
                ctx.case(None)
                if canon_of(st, d['fixture']) != base:
                    ctx.violation('C04/rerun/%s/output-differs'
                                  % d['fixture'], 'replayed', d)
    elif kind == 'seed_value':
        check_seed_values(ctx, d['prob_seed'], d.get('n_leaves', 6),
                          seeds=(d['rng_seed'],))
    elif kind == 'host':
        if d.get('simulated_cores'):
            check_host(ctx, d['prob_seed'], procs=(), simulate=True)
        else:
            check_host(ctx, d['prob_seed'], procs=(d['n_processors'],),
                       simulate=False)
    elif kind == 'cache_order':
        with pipeline.workdir('ctmverif_c04_') as wd:
            cache_case(ctx, wd, d)
    elif kind == 'nproc':
        prob = c14suite.make_problem(d['prob_seed'], d.get('n_leaves'))
        with pipeline.workdir('ctmverif_c04_') as wd:
            with pipeline.quiet():
                st = stagefix.Mapping(prob, wd)
            run_plain(st, d['n_processors'][0])
            check_nproc(ctx, st, d['prob_seed'], d.get('n_leaves'),
                        d['n_processors'][0], canon_of(st, 'mapping'))
    elif kind == 'hashseed':
        base = {}
        if d['fixture'] in FIXTURES:
            prob = c14suite.make_problem(d['prob_seed'], d.get('n_leaves'))
            with pipeline.workdir('ctmverif_c04_') as wd:
                for fixture in FIXTURES:
                    with pipeline.quiet():
                        st = stagefix.STAGES[fixture](prob, wd)
                    run_plain(st, d['n_processors'])
                    base[fixture] = canon_of(st, fixture)
        base.update(wide_base(d['prob_seed']))
        seeds = [d['PYTHONHASHSEED']] + [h for h in ('0', '1', '2', '3')
                                         if h != d['PYTHONHASHSEED']]
        hash_seed_runs(ctx, d['prob_seed'], d.get('n_leaves'),
                       d['n_processors'], base, seeds,
                       full_seeds=seeds if d['fixture'] in FIXTURES else [])
    elif kind == 'reorder':
        rng = random.Random(0)
        # re-check the recorded blob through the same code path
        from cell_type_mapper.utils import output_utils
        import pandas as pd
        real_read = output_utils.read_df_from_h5ad
        frame = pd.DataFrame(index=pd.Index(['c%d' % c for c in d['order']]))
        output_utils.read_df_from_h5ad = lambda h5ad_path, df_name: frame
        try:
            try:
                got = output_utils.re_order_blob(
                    results_blob=[{'cell_id': 'c%d' % c, 'v': v}
                                  for c, v in d['blob']], query_path='unused')
                impl = [[int(g['cell_id'][1:]), g['v']] for g in got]
            except KeyError:
                impl = None
        finally:
            output_utils.read_df_from_h5ad = real_read
        last = {}
        for c, v in d['blob']:
            last[c] = v
        want = [[c, last[c]] for c in d['order']] \
            if all(c in last for c in d['order']) else None
        ctx.case(None)
        if impl != want:
            ctx.violation('C04/reorder/replay', 're_order_blob: expected %r '
                          'got %r' % (want, impl), d)
    elif not from_corpus:
        print('nothing to replay for kind', kind)
