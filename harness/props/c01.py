"""
C01 — every query cell gets one complete, ordered, tree-consistent assignment.

Layers (CONTRIBUTING.md):
 (i)  predicates on the implementation alone: `levelloop_util.c01_predicate`
      on the extended JSON of the real `run_mapping` (count, order, ids, every
      level of the stored tree, node-of-level, root-to-leaf path in the stored
      tree, directly_assigned flags, stored tree echoed); at unit level the
      real `run_type_assignment` (scripted `_run_type_assignment`) must give
      row i the record of cell i's own walk; real `backfill_assignments` must
      infer ancestors; real `re_order_blob` must emit obs order.
 (ii) correspondence with the Lean model (CTM/Model/LevelLoop.lean):
      `runLevelLoop` ~ run_type_assignment for arbitrary (also ill-behaved)
      oracles, `backfill` ~ backfill_assignments, `reorderBlob` ~
      re_order_blob, `mapPipeline` ~ the data flow of `_run_mapping` with the
      oracle read off the real output.
"""
import copy
import json

from ctmverif import gen, levelloop_util as U, treeio

RULE = ('unit: valid trees (depth 1-5, chains, single-node levels; trees with a '
        'childless parent in the wild stream are now rejected by the validator '
        'and only checked against wfb) x 0-9 cells (repeated vectors) x '
        'scripted votes (valid: a child of the parent; wild: sibling-stealing / '
        'other-level / unknown names, None correlations, invalid runner-ups); '
        'backfill: records missing one level / all but the leaf / random '
        'subsets / unknown nodes; re_order: permuted, duplicated, missing '
        'records; end to end: generated reference + marker table + query '
        '(1-12 cells, ids sorting differently from file order, 3 encodings) x '
        'chunk size 1..n+3 x workers 1-4 x flatten x every droppable level x '
        'absent drop level x runners-up 0-5; same-process histories: 4-5 '
        'consecutive mappings in this process with the stats / marker / query '
        'files re-written at the same paths (cells appended / re-ordered / '
        'removed / all new, sometimes a new reference), tmp_dir set or None; '
        'thorough adds every tree shape '
        'with <=4 levels and <=6 leaves x {plain, flatten, each drop}. '
        'non-trivial = the tree has a parent with >=2 children and the case '
        'has >=2 cells (unit/e2e) or a level is actually inferred (backfill); '
        'distinct by canonical JSON of the case')
TRUSTED = ['anndata/h5py write and read back the query and the stats file as '
           'given', 'json round trip of Python',
           'the oracle is read off the real output (the vote itself is C02/C03)']
ASSUMPTIONS = ['hierarchy lists distinct level names',
               'cell ids are unique strings',
               'chunk_size >= 1 and n_processors >= 1',
               'drop_level is absent from the taxonomy or one of its non-leaf '
               'levels; the taxonomy has >= 2 levels when a level is dropped']


# --------------------------------------------------------------------------
# unit: the level loop with a scripted vote
# --------------------------------------------------------------------------

def script_to_list(script):
    return [[None if p is None else list(p), k, v]
            for (p, k), v in script.items()]


def script_from_list(lst):
    out = {}
    for p, k, v in lst:
        v = dict(v)
        if v.get('ru') is not None:
            v['ru'] = [tuple(r) for r in v['ru']]
        out[(None if p is None else tuple(p), k)] = v
    return out


def validator_rejects(ctx, tree, stream):
    """trees the real validator rejects are outside the property's
    quantifier (since the fix for the childless-parent finding that includes a
    non-leaf node without children); the model's wfb must reject them too"""
    v = treeio.impl_validate(tree)
    if v == 'ok':
        return False
    ctx.count('%s:validator-rejects:%s' % (stream, v.split(':')[0]))
    if ctx.driver_ok:
        canon = U.Canon(tree)
        if ctx.model('levelloop.wf', {'tree': canon.tree_json()}):
            ctx.violation(
                '%s/model/wfb-accepts-rejected-tree' % ctx.prop,
                'model: wfb holds on a tree the real validator rejects (%s)'
                % v, {'kind': 'wfb', 'tree': tree, 'impl': v,
                      'broken': 'hypothesis wfb ~ validate_taxonomy_tree'},
                found_input=False)
    return True


def check_unit(ctx, tree, kappas, script, mode, prop='C01'):
    detail = {'kind': 'unit', 'tree': tree, 'kappas': list(kappas),
              'script': script_to_list(script), 'mode': mode}
    if validator_rejects(ctx, tree, 'unit'):
        ctx.case(None)
        return True
    status, res, calls = U.impl_unit_loop(tree, kappas, script)
    nontriv = U.has_choice(tree) and len(kappas) >= 2
    ctx.case(json.dumps(detail, sort_keys=True, default=repr)
             if nontriv else None,
             sample={'kind': 'unit', 'mode': mode,
                     'hierarchy': tree['hierarchy'], 'n_cells': len(kappas),
                     'impl': status})
    ctx.count('unit:%s:%s' % (mode, status if status == 'ok' else res))
    ctx.count('unit:depth:%d' % len(tree['hierarchy']))
    # (i) predicate on the implementation alone: row i = cell i's own walk
    want = []
    for k in kappas:
        w = U.indep_walk(tree, script, k)
        want.append(None if w is None else U.indep_finish(w))
    pred_fail = None
    if all(w is not None for w in want):
        if status != 'ok':
            pred_fail = ('error', 'run_type_assignment fails (%s) although '
                         'every cell has a path' % res)
        elif len(res) != len(kappas):
            pred_fail = ('count', '%d rows for %d cells'
                         % (len(res), len(kappas)))
        else:
            for i, (got, w) in enumerate(zip(res, want)):
                if list(got.keys()) != list(tree['hierarchy']):
                    pred_fail = ('levels', 'row %d has levels %r'
                                 % (i, list(got.keys())))
                    break
                if got != w:
                    lv = [l for l in w if got[l] != w[l]][0]
                    pred_fail = (
                        'row-mixup' if any(got == w2 for w2 in want)
                        or got[lv]['assignment'] != w[lv]['assignment']
                        else 'payload',
                        'row %d (cell vector %r) level %r: got %r, its own '
                        'walk gives %r' % (i, kappas[i], lv, got[lv], w[lv]))
                    break
    if pred_fail:
        ctx.violation('%s/unit-loop/%s' % (prop, pred_fail[0]),
                      'run_type_assignment: ' + pred_fail[1], detail)
    # (ii) correspondence
    if ctx.driver_ok:
        canon = U.Canon(tree, extra_nodes=U.script_names(script))
        out = ctx.model('levelloop.run', {
            'tree': canon.tree_json(), 'oracle': canon.oracle_json(script),
            'cells': list(kappas)})
        ctx.traces += 1
        loop = out['loop']
        # the theorems' hypothesis wfb must hold on every tree the real
        # validator accepts and in which every non-leaf node has a child
        populated = all(len(k) > 0 for l in tree['hierarchy'][:-1]
                        for k in tree[l].values())
        if out['wf'] != populated:
            ctx.violation(
                '%s/model/wfb' % prop,
                'model: wfb=%s on a validated tree with populated=%s'
                % (out['wf'], populated),
                dict(detail, broken='hypothesis wfb ~ validate_taxonomy_tree '
                                    '+ every parent has a child'),
                found_input=False)
        if status == 'ok':
            same = 'ok' in loop and len(loop['ok']) == len(res) and all(
                U.levels_equal(m, canon.levels_json(r))
                for m, r in zip(loop['ok'], res))
        else:
            same = loop.get('err') == res
        if not same:
            ctx.disagreements_checked += 1
            if not pred_fail:
                ctx.violation(
                    '%s/correspondence/runLevelLoop/%s' % (prop, mode),
                    'correspondence runLevelLoop ~ run_type_assignment no '
                    'longer checks (impl %s)' % status,
                    dict(detail, impl=res if status != 'ok' else 'ok',
                         model=loop if 'err' in loop else 'ok-but-different',
                         broken='correspondence CTM.LevelLoop.runLevelLoop ~ '
                                'run_type_assignment'),
                    found_input=False)
        # the refinement runLevelLoop = map walk, on well-behaved oracles
        if all(w is not None for w in want) and out['walk'] != loop:
            ctx.violation(
                '%s/model/refinement' % prop,
                'model: runLevelLoop differs from cells.map walk on a '
                'well-behaved oracle', dict(detail, broken='refinement '
                                            'runLevelLoop = map walk'),
                found_input=False)
    return pred_fail is None


def gen_unit_tree(rng, wild):
    t = U.strip_tree(gen.random_tree(
        rng, max_depth=5 if rng.random() < 0.7 else 2, max_top=3,
        max_children=3, rows=False, chain_prob=0.3))
    if rng.random() < 0.15:
        t = U.gen_e2e_tree(rng, max_depth=4, max_leaves=8)
    if wild and rng.random() < 0.3 and len(t['hierarchy']) > 1:
        # a parent without children (accepted by the validator when the
        # child is then nobody's child: remove a whole sub-tree's link)
        t = copy.deepcopy(t)
        h = t['hierarchy']
        i = rng.randrange(len(h) - 1)
        cands = [n for n in t[h[i]] if len(t[h[i]][n]) >= 1]
        if cands and len(t[h[i]]) > 1:
            n = rng.choice(cands)
            # move n's children to a sibling, leaving n childless
            sib = rng.choice([m for m in t[h[i]] if m != n])
            t[h[i]][sib] = t[h[i]][sib] + t[h[i]][n]
            t[h[i]][n] = []
    return t


def run_units(ctx, n):
    rng = ctx.rng
    for i in range(n):
        wild = (i % 3 == 2)
        tree = gen_unit_tree(rng, wild)
        n_cells = rng.choice([0, 1, 2, 3, 5, 9])
        n_kappa = max(1, rng.randint(1, max(1, n_cells)))
        kappas = [rng.randrange(n_kappa) for _ in range(n_cells)]
        script = U.gen_script(rng, tree, kappas or [0],
                              mode='wild' if wild else 'valid',
                              n_runners=rng.randint(0, 3))
        check_unit(ctx, tree, kappas, script, 'wild' if wild else 'valid')


# --------------------------------------------------------------------------
# backfill_assignments
# --------------------------------------------------------------------------

def gen_entry(rng, node, kids_pool):
    ru = [rng.choice(kids_pool) for _ in range(rng.randint(0, 2))]
    return {'assignment': node,
            'bootstrapping_probability': U.dyadic(rng, 1, 16),
            'avg_correlation': None if rng.random() < 0.1
            else U.dyadic(rng, -16, 16),
            'runner_up_assignment': ru,
            'runner_up_correlation': [U.dyadic(rng, -16, 16) for _ in ru],
            'runner_up_probability': [U.dyadic(rng) for _ in ru],
            'aggregate_probability': U.dyadic(rng, 0, 64, 64),
            'directly_assigned': True}


def gen_backfill_case(rng):
    tree = U.gen_e2e_tree(rng, max_depth=5, max_leaves=8)
    h = tree['hierarchy']
    paths = U.leaf_paths(tree)
    mode = rng.choice(['drop', 'drop', 'flatten', 'random', 'bad', 'none'])
    if mode == 'drop' and len(h) < 2:
        mode = 'none'
    if mode == 'drop':
        present = [l for l in h if l != rng.choice(h[:-1])]
    elif mode == 'flatten':
        present = h[-1:]
    elif mode == 'none':
        present = list(h)
    else:
        present = [l for l in h if rng.random() < 0.6]
    recs = []
    for i in range(rng.randint(0, 5)):
        leaf, d = rng.choice(paths)
        keep = present
        if mode == 'random' and rng.random() < 0.5:
            keep = [l for l in h if rng.random() < 0.6]
        r = {}
        for l in keep:
            r[l] = gen_entry(rng, d[l], list(tree[l].keys()))
        r['cell_id'] = 'c%d' % i
        if mode == 'bad' and keep and rng.random() < 0.7:
            r[rng.choice(keep)]['assignment'] = 'ghost_node'
        recs.append(r)
    return tree, recs, mode


def check_backfill(ctx, tree, recs, mode, prop='C01'):
    detail = {'kind': 'backfill', 'tree': tree, 'records': recs, 'mode': mode}
    h = tree['hierarchy']
    status, out = U.impl_backfill(tree, recs)
    inferred = status == 'ok' and any(len(o) > len(r)
                                      for o, r in zip(out, recs))
    ctx.case(json.dumps(detail, sort_keys=True) if inferred else None,
             sample={'kind': 'backfill', 'mode': mode, 'hierarchy': h,
                     'n': len(recs), 'impl': status})
    ctx.count('backfill:%s:%s' % (mode, status if status == 'ok' else out))
    pm = U.parent_map(tree)
    pred_fail = None
    if mode in ('drop', 'flatten', 'none'):
        if status != 'ok':
            pred_fail = ('error', 'backfill_assignments fails: %s' % out)
        else:
            for r0, r1 in zip(recs, out):
                if r1.get('cell_id') != r0['cell_id']:
                    pred_fail = ('ids', 'cell id changed')
                    break
                miss = [l for l in h if l not in r1]
                if miss:
                    pred_fail = ('missing-level', 'levels %r not inferred '
                                 'for %r' % (miss, r0['cell_id']))
                    break
                for l in h:
                    if l in r0:
                        if r1[l] != r0[l]:
                            pred_fail = ('voted-level-changed',
                                         'level %r of %r was altered'
                                         % (l, r0['cell_id']))
                        continue
                    cl = h[h.index(l) + 1]
                    want = {k: v for k, v in r1[cl].items()
                            if not k.startswith('runner_up')}
                    want['assignment'] = pm[cl][r1[cl]['assignment']]
                    want['directly_assigned'] = False
                    if r1[l] != want:
                        pred_fail = ('inferred-level',
                                     'level %r of %r: %r, expected %r'
                                     % (l, r0['cell_id'], r1[l], want))
                if pred_fail:
                    break
    if pred_fail:
        ctx.violation('%s/backfill/%s' % (prop, pred_fail[0]),
                      'backfill_assignments: ' + pred_fail[1], detail)
    if ctx.driver_ok:
        canon = U.Canon(tree, extra_nodes=['ghost_node'])
        ids = {r['cell_id']: i for i, r in enumerate(recs)}
        m = ctx.model('levelloop.backfill', {
            'tree': canon.tree_json(),
            'records': [{'id': ids[r['cell_id']],
                         'levels': canon.levels_json(r)} for r in recs]})
        ctx.traces += 1
        if status == 'ok':
            same = 'ok' in m and len(m['ok']) == len(out) and all(
                a['id'] == ids[b['cell_id']] and
                U.levels_equal(a['levels'], canon.levels_json(b))
                for a, b in zip(m['ok'], out))
        else:
            same = m.get('err') == out
        if not same:
            ctx.disagreements_checked += 1
            if not pred_fail:
                ctx.violation(
                    '%s/correspondence/backfill/%s' % (prop, mode),
                    'correspondence backfill ~ backfill_assignments no '
                    'longer checks',
                    dict(detail, impl=out if status != 'ok' else 'ok',
                         model=m if 'err' in m else 'ok-but-different',
                         broken='correspondence CTM.LevelLoop.backfill ~ '
                                'TaxonomyTree.backfill_assignments'),
                    found_input=False)


# --------------------------------------------------------------------------
# re_order_blob
# --------------------------------------------------------------------------

def gen_reorder_case(rng):
    n = rng.randint(1, 8)
    names = gen.fresh_names(rng, n, prefix=rng.choice(['', 'c', '1']))
    blob = [{'cell_id': c, 'lvl': {'assignment': 'x%d' % i}}
            for i, c in enumerate(names)]
    rng.shuffle(blob)
    mode = rng.choice(['perm', 'perm', 'dup', 'missing', 'extra'])
    if mode == 'dup':
        c = copy.deepcopy(rng.choice(blob))
        c['lvl']['assignment'] = 'dup'
        blob.insert(rng.randint(0, len(blob)), c)
    elif mode == 'missing':
        blob.pop(rng.randrange(len(blob)))
    elif mode == 'extra':
        blob.insert(rng.randint(0, len(blob)),
                    {'cell_id': 'not_in_obs', 'lvl': {'assignment': 'e'}})
    return names, blob, mode


def check_reorder(ctx, names, blob, mode, prop='C01'):
    detail = {'kind': 'reorder', 'obs': names, 'blob': blob, 'mode': mode}
    status, out = U.impl_reorder(names, blob)
    ctx.case(json.dumps(detail, sort_keys=True) if len(names) > 1 else None,
             sample=None)
    ctx.count('reorder:%s:%s' % (mode, status if status == 'ok' else out))
    pred_fail = None
    if mode in ('perm', 'extra'):
        by_id = {b['cell_id']: b for b in blob}
        if status != 'ok':
            pred_fail = ('error', 're_order_blob fails: %s' % out)
        elif out != [by_id[c] for c in names]:
            pred_fail = ('order', 'result is not in obs order: %r'
                         % [o['cell_id'] for o in out])
    if pred_fail:
        ctx.violation('%s/reorder/%s' % (prop, pred_fail[0]),
                      're_order_blob: ' + pred_fail[1], detail)
    if ctx.driver_ok:
        allc = sorted(set(names) | {b['cell_id'] for b in blob})
        cid = {c: i for i, c in enumerate(allc)}
        tag = {}

        def rec(b):
            t = tag.setdefault(b['lvl']['assignment'], len(tag))
            return {'id': cid[b['cell_id']],
                    'levels': [[0, {'a': t, 'p': [1, 1], 'c': None,
                                    'ru': None}]]}
        m = ctx.model('levelloop.reorder', {
            'ids': [cid[c] for c in names], 'records': [rec(b) for b in blob]})
        ctx.traces += 1
        if status == 'ok':
            same = 'ok' in m and \
                [(r['id'], r['levels'][0][1]['a']) for r in m['ok']] == \
                [(cid[o['cell_id']], tag[o['lvl']['assignment']])
                 for o in out]
        else:
            same = m.get('err') == out
        if not same:
            ctx.disagreements_checked += 1
            if not pred_fail:
                ctx.violation(
                    '%s/correspondence/reorder/%s' % (prop, mode),
                    'correspondence reorderBlob ~ re_order_blob no longer '
                    'checks', dict(detail, impl=status, model=m,
                                   broken='correspondence CTM.LevelLoop.'
                                          'reorderBlob ~ re_order_blob'),
                    found_input=False)


# --------------------------------------------------------------------------
# end to end
# --------------------------------------------------------------------------

def tree_shape_class(tree):
    h = tree['hierarchy']
    if any(len(k) == 0 for l in h[:-1] for k in tree[l].values()):
        return 'childless-parent'
    if not U.has_choice(tree):
        return 'no-choice'
    if len(tree[h[0]]) == 1:
        return 'single-top-node'
    return 'general'


def error_class(msg):
    msg = msg or ''
    if msg.startswith('KeyError(None'):
        return 'KeyError-None'
    name = msg.split('(')[0]
    for pat, cls in (('were present in query', 'no-markers-in-query'),
                     ('not in marker cache', 'parent-not-in-cache'),
                     ('Not sure how to proceed', 'no-children'),
                     ('One or more of the processes', 'worker-failed')):
        if pat in msg:
            return '%s-%s' % (name, cls)
    return name or 'unknown'


def check_e2e(ctx, problem, cfg, prop='C01', label='random', workdir=None,
              tmp_dir=True, history=None, keep=None):
    detail = {'kind': 'e2e', 'problem': problem, 'config': cfg}
    if history is not None:
        # same-process history: the failing step with everything before it
        detail = {'kind': 'history', 'steps': history}
    tree = problem['tree']
    if validator_rejects(ctx, tree, 'e2e'):
        ctx.case(None)
        return True
    r = U.run_problem(problem, cfg, workdir=workdir, tmp_dir=tmp_dir)
    if keep is not None:
        keep['results'] = r['results'] if r['ok'] else None
    U.mutation_violation(ctx, prop, r, detail)
    if not tmp_dir:
        ctx.count('e2e:tmp_dir=None')
    nontriv = U.has_choice(tree) and len(problem['cell_ids']) >= 2
    ctx.case(json.dumps({'p': problem, 'c': cfg, 'h': len(history or [])},
                        sort_keys=True) if nontriv else None,
             sample={'kind': 'e2e', 'hierarchy': tree['hierarchy'],
                     'n_cells': len(problem['cell_ids']), 'config': cfg,
                     'ok': r['ok']})
    ctx.count('e2e:%s' % label)
    ctx.count('e2e:depth:%d' % len(tree['hierarchy']))
    ctx.count('e2e:shape:%s' % tree_shape_class(tree))
    ctx.count('e2e:encoding:%s' % cfg['encoding'])
    ctx.count('e2e:workers:%d' % cfg['n_processors'])
    ctx.count('e2e:%s' % ('flatten' if cfg['flatten'] else 'noflatten'))
    if cfg['flatten'] and cfg['drop_level'] in tree['hierarchy']:
        ctx.count('e2e:flatten+drop')
    if cfg['n_runners_up'] == 0:
        ctx.count('e2e:no-runners-up')
    if cfg['bootstrap_iteration'] == 1:
        ctx.count('e2e:single-iteration')
    if cfg.get('bootstrap_factor_lookup'):
        ctx.count('e2e:bootstrap_factor_lookup')
    ctx.count('e2e:drop:%s' % (
        'none' if cfg['drop_level'] is None else
        'absent' if cfg['drop_level'] not in tree['hierarchy'] else
        'top' if cfg['drop_level'] == tree['hierarchy'][0] else 'middle'))
    if not r['ok']:
        ctx.violation('%s/map/%s/%s' % (prop, tree_shape_class(tree),
                                        error_class(r['error'])),
                      'a valid taxonomy with usable markers is not mapped: %s'
                      % r['error'], dict(detail, error=r['error']))
        return False
    fails = U.c01_predicate(tree, cfg, problem['cell_ids'], r['results'],
                            r['out_tree'])
    # the chunks the workers really saw (hook trace): they must tile the rows
    # -- consecutive, none empty, ending at the last row -- and rows r0:r1 must
    # travel with the names obs[r0:r1].  HOW the rows are cut (chunk size
    # clamp, evening out) is not constrained by the property.
    borders = None
    if r['chunks'] is not None and not fails:
        n = len(problem['cell_ids'])
        got = [(a, b) for a, b, _ in r['chunks']]
        pos = 0
        for a, b in got:
            if a != pos or b <= a:
                pos = -1
                break
            pos = b
        if pos != n:
            fails.append(('chunk-cover', 'the chunks %r handed to the workers '
                          'do not tile rows 0..%d' % (got, n)))
        elif any(ids != problem['cell_ids'][a:b]
                 for a, b, ids in r['chunks']):
            fails.append(('name-chunk', 'rows r0:r1 were paired with other '
                          'names than obs[r0:r1]'))
        else:
            borders = got
            ctx.count('e2e:chunks:%s' % (
                'as-clamp' if got == U.indep_chunks(
                    n, cfg['n_processors'], cfg['chunk_size'])[1]
                else 'other-tiling'))
    if fails:
        ctx.violation('%s/map/%s' % (prop, fails[0][0]),
                      'run_mapping output breaks C01: ' + fails[0][1],
                      dict(detail, fails=fails[:3]))
    if ctx.driver_ok:
        diff = U.model_pipeline(ctx, problem, cfg, r['results'],
                                borders=borders)
        ctx.traces += 1
        if diff is not None:
            ctx.disagreements_checked += 1
            if not fails:
                ctx.violation(
                    '%s/correspondence/mapPipeline/%s' % (prop, diff['field']),
                    'correspondence mapPipeline ~ _run_mapping no longer '
                    'checks (%s)' % diff['field'],
                    dict(detail, diff=diff,
                         broken='correspondence CTM.LevelLoop.mapPipeline ~ '
                                '_run_mapping data flow'),
                    found_input=False)
    return not fails


def run_e2e(ctx, n):
    rng = ctx.rng
    for i in range(n):
        problem = U.make_problem(rng, max_depth=5 if i % 3 else 3,
                                 duplicate_cells=(i % 5 == 0),
                                 n_cells=rng.randint(11, 26) if i % 4 == 1
                                 else None)
        cfg = U.gen_config(rng, problem)
        h = problem['tree']['hierarchy']
        if i % 7 == 3 and len(h) > 2:
            cfg['drop_level'] = ctx.rng.choice(h[1:-1])
        if i % 9 == 4 and len(h) > 1:
            # options crossed on purpose: flatten AND an existing drop_level,
            # no runners-up, a single iteration
            cfg['flatten'] = True
            cfg['drop_level'] = ctx.rng.choice(h[:-1])
            if i % 2:
                cfg['n_runners_up'] = 0
                cfg['bootstrap_iteration'] = 1
        U.maybe_factor_lookup(ctx.rng, problem['tree'], cfg)
        check_e2e(ctx, problem, cfg)


def next_query(rng, problem):
    """the query file re-written: other order / cells appended / removed /
    all new; the reference stays"""
    p = copy.deepcopy(problem)
    cells = list(zip(p['cell_ids'], p['X']))
    n_genes = len(p['query_genes'])
    kind = rng.choice(['append', 'append', 'reorder', 'remove', 'new', 'mix'])
    taken = set(p['cell_ids'])

    def fresh(k):
        out = []
        while len(out) < k:
            c = rng.choice(['c', 'n', 'Z', '1']) + str(rng.randrange(3000))
            if c not in taken:
                taken.add(c)
                row = [float(rng.randrange(40)) for _ in range(n_genes)]
                row[rng.randrange(n_genes)] += 1.0
                out.append((c, row))
        return out
    if kind in ('append', 'mix'):
        for c in fresh(rng.randint(1, 4)):
            cells.insert(rng.randint(0, len(cells)) if kind == 'mix'
                         else len(cells), c)
    if kind in ('reorder', 'mix'):
        rng.shuffle(cells)
    if kind == 'remove' and len(cells) > 1:
        cells.pop(rng.randrange(len(cells)))
        rng.shuffle(cells)
    if kind == 'new':
        cells = fresh(rng.randint(1, 8))
    p['cell_ids'] = [c for c, _ in cells]
    p['X'] = [list(x) for _, x in cells]
    return p, kind


def sparsify(rng, problem, p_zero=0.55):
    """many zero counts, so that rows store different numbers of entries in
    the sparse encodings (no all-zero row)"""
    for row in problem['X']:
        keep = rng.randrange(len(row))
        for j in range(len(row)):
            if j != keep and rng.random() < p_zero:
                row[j] = 0.0
        if row[keep] == 0.0:
            row[keep] = 1.0
    return problem


def gen_history(rng, n_steps):
    """every other history is 'sparse': rows with differing numbers of stored
    entries, the encoding held at csr / csc / dense for consecutive steps,
    tmp_dir=None (files read in place) and steps that keep the row count
    (same cells re-ordered)"""
    steps = []
    sparse = rng.random() < 0.5
    enc = rng.choice(['csr', 'csr', 'csc', 'dense'])
    problem = U.make_problem(rng, max_depth=4, n_cells=rng.randint(3, 8))
    if sparse:
        sparsify(rng, problem)
    for i in range(n_steps):
        if i > 0:
            if sparse and rng.random() < 0.6:
                problem = copy.deepcopy(problem)
                cells = list(zip(problem['cell_ids'], problem['X']))
                rng.shuffle(cells)
                if len(cells) > 1 and \
                        [c for c, _ in cells] == problem['cell_ids']:
                    cells.reverse()
                problem['cell_ids'] = [c for c, _ in cells]
                problem['X'] = [list(x) for _, x in cells]
            elif rng.random() < 0.3:
                # stats, markers and query all re-written
                problem = U.make_problem(rng, max_depth=4,
                                         n_cells=rng.randint(1, 8))
                if sparse:
                    sparsify(rng, problem)
            else:
                problem, _ = next_query(rng, problem)
                if sparse:
                    sparsify(rng, problem)
        cfg = U.gen_config(rng, problem)
        if sparse:
            if rng.random() < 0.8:
                cfg['encoding'] = enc
            else:
                enc = cfg['encoding']
        U.maybe_factor_lookup(rng, problem['tree'], cfg, prob=0.2)
        steps.append({'problem': problem, 'config': cfg,
                      'tmp_dir': rng.random() < (0.2 if sparse else 0.4)})
    return steps


def check_history(ctx, steps, prop='C01'):
    """consecutive mappings IN THIS PROCESS with the stats / marker / query
    files re-written at the SAME paths: every run must describe the file as it
    is now (count, order, ids, ...), not an earlier one"""
    from ctmverif import pipeline
    ok = True
    with pipeline.workdir('ctmverif_ll_hist_') as d:
        for i, st in enumerate(steps):
            ctx.count('history:step')
            keep = {}
            ok = check_e2e(ctx, st['problem'], st['config'], prop=prop,
                           label='history', workdir=d,
                           tmp_dir=st.get('tmp_dir', True),
                           history=steps[:i + 1], keep=keep) and ok
            if not ok:
                break
            if i > 0 and keep.get('results') is not None:
                # the same mapping from freshly written files in a fresh
                # directory: a record must be computed from the cell's row of
                # the file as it is NOW, whatever was mapped before
                fresh = U.run_problem(st['problem'], st['config'],
                                      want_trace=False)
                ctx.count('history:fresh-run-compared')
                if fresh['ok'] and fresh['results'] != keep['results']:
                    bad = [a['cell_id'] for a, b in
                           zip(keep['results'], fresh['results']) if a != b]
                    ctx.violation(
                        '%s/history/differs-from-fresh-run' % prop,
                        'step %d of a same-process history (files re-written '
                        'at the same paths): the records of cells %r differ '
                        'from those of the same mapping run on freshly '
                        'written files' % (i, bad[:5]),
                        {'kind': 'history', 'steps': steps[:i + 1]})
                    ok = False
                    break
    return ok


def run_histories(ctx, n, n_steps):
    for _ in range(n):
        check_history(ctx, gen_history(ctx.rng, n_steps))


def run_shapes(ctx, max_levels, max_leaves, budget_s):
    """every tree shape x {plain, flatten, each droppable level}"""
    rng = ctx.rng
    n = 0
    for depth, forest in gen.all_tree_shapes(max_levels, max_leaves):
        if ctx.elapsed() > budget_s:
            ctx.extra_cov['shapes_truncated_at'] = n
            break
        tree = U.strip_tree(gen.shape_to_tree(depth, forest, rng))
        for l in tree[tree['hierarchy'][-1]]:
            tree[tree['hierarchy'][-1]][l] = []
        problem = U.make_problem(rng, tree=tree, n_cells=rng.randint(2, 6))
        variants = [(False, None), (True, None)] + \
            [(False, l) for l in tree['hierarchy'][:-1]
             if len(tree['hierarchy']) > 1]
        for flatten, drop in variants:
            cfg = U.gen_config(rng, problem, flatten=flatten)
            cfg['flatten'] = flatten
            cfg['drop_level'] = drop
            U.maybe_factor_lookup(rng, tree, cfg, prob=0.25)
            check_e2e(ctx, problem, cfg, label='shape')
        n += 1
    ctx.extra_cov['exhaustive_shapes'] = n


# --------------------------------------------------------------------------

def corpus_dir(prop):
    from ctmverif import core
    return core.VERIF / 'corpus' / prop


def run_corpus(ctx, prop, replay_fn):
    d = corpus_dir(prop)
    for f in sorted(d.glob('*.json')) if d.is_dir() else []:
        replay_fn(ctx, json.loads(f.read_text()), from_corpus=True)
        ctx.count('corpus')


def run(ctx):
    quick = ctx.tier == 'quick'
    run_corpus(ctx, 'C01', replay)
    run_units(ctx, 150 if quick else 900)
    for _ in range(60 if quick else 400):
        check_backfill(ctx, *gen_backfill_case(ctx.rng))
    for _ in range(15 if quick else 80):
        check_reorder(ctx, *gen_reorder_case(ctx.rng))
    run_e2e(ctx, 110 if quick else 400)
    run_histories(ctx, 8 if quick else 50, 4 if quick else 5)
    if not quick:
        run_shapes(ctx, 4, 6, budget_s=480)


def replay(ctx, data, from_corpus=False):
    d = data.get('detail', data)
    kind = d.get('kind')
    if kind == 'unit':
        check_unit(ctx, d['tree'], d['kappas'], script_from_list(d['script']),
                   d.get('mode', 'replay'))
    elif kind == 'backfill':
        check_backfill(ctx, d['tree'], d['records'], d.get('mode', 'drop'))
    elif kind == 'reorder':
        check_reorder(ctx, d['obs'], d['blob'], d.get('mode', 'perm'))
    elif kind == 'e2e':
        check_e2e(ctx, d['problem'], d['config'], label='replay')
    elif kind == 'history':
        check_history(ctx, d['steps'])
    elif not from_corpus:
        print('nothing to replay for kind', kind)
