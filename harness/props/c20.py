"""
C20 -- cloud-safe outputs reveal no absolute path of the host.

Tie:
* unit -- generated messages / lists / dicts over a generated *real* directory
  layout (so that is_file / is_dir answer) -> the real `sanitize_paths` vs the
  Lean model (CTM/Model/Sanitize.lean) with `existsOnHost` = the layout as the
  harness sees it through os.path; the word-level guarantee the theorems state
  is evaluated on the real output by an independent computation;
* pipeline -- `run_mapping` with cloud_safe=True in layouts with awkward names,
  successful and failing on every invalid-input class; `config` and `log` of the
  JSON and HDF5 outputs and the log file are scanned substring-wise for any
  '/'-started run of characters with an existing prefix under the input /
  output / scratch roots, the repository, the interpreter and site-packages.
"""
import contextlib
import copy
import gc
import json
import os
import pathlib
import re
import sys
import tempfile

from ctmverif import core, msg_sites, pipeline, translate_res

RULE = ('unit: messages of 1-12 words over a generated real directory layout '
        '(awkward names: commas, quotes, brackets, =, :), words = existing / '
        'half-existing / missing / relative / package / // paths, bare or '
        'decorated with leading and trailing punctuation and quotes, joined '
        'by every kind of Python whitespace, plus lists/dicts of such '
        'strings; non-trivial = at least one exposed word; distinct by '
        'message shape (layout-relative).  pipeline: run_mapping with '
        'cloud_safe=True, success + every invalid-input class, awkward '
        'directory names; non-trivial = the run wrote a log')
TRUSTED = ['os.path.isfile/isdir/realpath tell what pathlib is_file/is_dir/'
           'resolve see', 'json / h5py read back what run_mapping wrote']
ASSUMPTIONS = [
    'file and directory names contain no whitespace (the property says so); '
    'no path component longer than NAME_MAX (Python 3.12 Path.is_file '
    'raises OSError ENAMETOOLONG out of sanitize_paths)',
    'the word-level guarantee (theorem words_clean) needs: no exposed word '
    'occurs inside another word of the same string; the end-to-end claim is '
    'the substring scan of real outputs (open set of third-party messages)']

QUOTES = '"\''


def translate(ctx):
    translate_res.translate(ctx)


# ---------------------------------------------------------------------------
# independent path arithmetic (no pathlib)
# ---------------------------------------------------------------------------

def strip_quotes(w):
    return ''.join(c for c in w if c not in QUOTES)


def norm(s):
    if s.startswith('//') and not s.startswith('///'):
        root = 2
    elif s.startswith('/'):
        root = 1
    else:
        root = 0
    parts = [x for x in s.split('/') if x and x != '.']
    return root, parts


def pstr(root, parts):
    return ('/' * root + '/'.join(parts)) or '.'


def exists(p):
    try:
        return os.path.isfile(p) or os.path.isdir(p)
    except (OSError, ValueError):
        return False


def ancestors(root, parts):
    """the path and its ancestors that is_exposed consults"""
    out = []
    ps = list(parts)
    while ps:
        out.append(pstr(root, ps))
        ps = ps[:-1]
    if root == 2:
        out.append('//')
    return out


def exposed(word):
    root, parts = norm(strip_quotes(word))
    return any(exists(p) for p in ancestors(root, parts))


class RelativeToError(Exception):
    pass


def safe_name(word, mapper):
    root, parts = norm(strip_quotes(word))
    ab = os.path.realpath(pstr(root, parts))
    if ab.startswith(mapper):
        ra, pa = norm(ab)
        rm, pm = norm(mapper)
        if ra == rm and pa[:len(pm)] == pm:
            rest = pa[len(pm):]
            return '/'.join(rest) if rest else '.'
        raise RelativeToError()
    return parts[-1] if parts else ''


def host_json(words, mapper):
    existing = set()
    resolve = {}
    for w in words:
        root, parts = norm(strip_quotes(w))
        anc = ancestors(root, parts)
        for p in anc:
            if exists(p):
                existing.add(p)
        p = pstr(root, parts)
        resolve[p] = os.path.realpath(p)
    return {'existing': sorted(existing),
            'resolve': sorted(resolve.items()),
            'mapperRoot': mapper}


def mapper_root():
    import cell_type_mapper
    return os.path.dirname(os.path.dirname(
        os.path.realpath(cell_type_mapper.__file__)))


# ---------------------------------------------------------------------------
# layouts and messages
# ---------------------------------------------------------------------------

DIR_NAMES = ['data', 'tmp', 'in,put', '(x)', "it's", 'q"d', 'a=b', 'c:d',
             '[l]', 'dot.d', 'src', 'u', 'x;y', 'sp#1', 'dev', 'T', 'tmp2',
             'été', '{b}', 'a,b,c']
FILE_NAMES = ['query.h5ad', 'stats.h5', 'm.json', 'a.b.c', 'noext',
              'x,y.txt', "o'k.h5", 'tmp', 'q(1).h5ad', 'k=v.json', 'z].h5']


class Layout(object):
    """a real directory tree under `root` plus a fake package"""

    def __init__(self, rng, root):
        self.root = str(root)
        self.dirs = []
        self.files = []
        level = [self.root]
        for depth in range(3):
            nxt = []
            for d in level:
                for nm in rng.sample(DIR_NAMES, rng.randint(1, 3)):
                    p = os.path.join(d, nm)
                    if not os.path.exists(p):
                        os.mkdir(p)
                        self.dirs.append(p)
                        nxt.append(p)
                for nm in rng.sample(FILE_NAMES, rng.randint(0, 2)):
                    p = os.path.join(d, nm)
                    if not os.path.exists(p):
                        with open(p, 'w') as f:
                            f.write('x')
                        self.files.append(p)
            level = rng.sample(nxt, min(len(nxt), 3))
        # a fake installation: <root>/pkg/src/cell_type_mapper/...
        self.pkg_parent = os.path.join(self.root, 'pkg', 'src')
        pk = os.path.join(self.pkg_parent, 'cell_type_mapper')
        os.makedirs(os.path.join(pk, 'cli'))
        self.pkg_files = []
        for rel in ('__init__.py', 'cli/x.py', 'cli/from_x.py'):
            p = os.path.join(pk, rel)
            with open(p, 'w') as f:
                f.write('#')
            self.pkg_files.append(p)
        # siblings sharing the string prefix of the package parent
        os.mkdir(self.pkg_parent + '2')
        with open(self.pkg_parent + '2/f.py', 'w') as f:
            f.write('#')
        self.siblings = [self.pkg_parent + '2', self.pkg_parent + '2/f.py',
                         self.pkg_parent + ',', self.pkg_parent + '2/nope']
        # links
        self.links = []
        l1 = os.path.join(self.root, 'lnk_pkg')
        os.symlink(os.path.join(pk, 'cli'), l1)
        self.links.append(l1 + '/x.py')
        self.links.append(l1)
        if self.dirs:
            l2 = os.path.join(self.root, 'lnk_d')
            os.symlink(rng.choice(self.dirs), l2)
            self.links.append(l2)

    def rel(self, s):
        """layout-independent form of a message (for distinct counting)"""
        return s.replace(self.root, '<W>')


PLAIN = ['the', 'file', 'error:', '=', '42', 'line', 'in', 'File', 'name',
         'copied', 'to', 'not', 'a', '-', 'ERROR', '====', 'x.h5', 'tmp',
         'u', 'src', 'py', 'query.h5ad', '(unable', 'errno', '2,', '.', '..',
         '/', '//', "''", '"', 'a/b']
SEPS = [' ', ' ', ' ', ' ', '\n', '\t', '  ', '\n    ', '\x0b', '\x0c', '\r\n',
        '\x1c', '\x1f', '\x85', '\xa0', ' ', ' ', ' ',
        ' ', ' ', ' ', '　']
NON_SEPS = ['​', '\x1b', '­', '﻿', '_', '\x7f', '\x08']
TRAIL = [',', ':', ')', "'", '"', ';', '.', ']', "',", '",', "')", '/',
         '/.', '//', '),']
LEAD = ['(', '[', "['", 'key=', '=', '"', "'", '("', 'name=\'', '<', ':',
        '@', 'file://', '-I', '{"p":"']


WS_KINDS = [('blank', ' '), ('tab', '\t'), ('newline', '\n'), ('cr', '\r'),
            ('crlf', '\r\n'), ('blanks', '   '), ('newline-indent', '\n    '),
            ('blank-newline', ' \n'), ('vtab', '\x0b'), ('formfeed', '\x0c'),
            ('nbsp', '\xa0'), ('linesep', '\u2028')]


def gen_base(rng, lay, mapper_real):
    """one path-like base word"""
    k = rng.randrange(20)
    some = lay.files + lay.dirs
    if k < 4 and some:
        return rng.choice(some)
    if k < 6 and some:
        return rng.choice(some) + '/' + rng.choice(
            ['missing.h5', 'no/such', 'tmp', 'x_1'])
    if k == 6:
        return rng.choice(['/nonexistent_zz/a', '/nonexistent_zz',
                           '/zz9/tmp/q.h5'])
    if k == 7:
        return rng.choice(['/tmp', '/dev', '/dev/shm', '/usr', '/etc/passwd',
                           '/proc/self', '/usr/bin'])
    if k == 8:
        return rng.choice(['../query.h5ad', './x', 'src/x', 'name.h5',
                           'harness', 'lean/CTM', '../..', 'harness/props/',
                           '..', './harness/../check'])
    if k == 9:
        return rng.choice(['//', '//dev/shm', '///dev', '//nonexistent_zz/q',
                           '////tmp', '//.'])
    if k == 10 and some:
        p = rng.choice(some)
        return os.path.dirname(p) + '/../' + os.path.basename(
            os.path.dirname(p)) + '/./' + os.path.basename(p)
    if k == 11 and some:
        return rng.choice(some) + rng.choice(['/', '/.', '//'])
    if k == 12:
        return rng.choice(lay.pkg_files + [lay.pkg_parent,
                                           lay.pkg_parent + '/cell_type_mapper'])
    if k == 13:
        return rng.choice(lay.siblings)
    if k == 14:
        return rng.choice(lay.links)
    if k == 15:
        return mapper_real + rng.choice(
            ['/cell_type_mapper/cli/cli_log.py', '/cell_type_mapper',
             '', '/cell_type_mapper/utils/nope.py', '2/x', ','])
    if k == 16 and lay.dirs:
        # a word with a key of another word as an infix
        d = rng.choice(lay.dirs)
        return d + rng.choice(['/tmp/q', '/dev/x', '/usr'])
    if k == 17 and some:
        # quote inside the path
        p = rng.choice(some)
        i = rng.randrange(1, len(p))
        return p[:i] + rng.choice(QUOTES) + p[i:]
    if k == 18 and some:
        p = rng.choice(some)
        return p + rng.choice(NON_SEPS) + 'x'
    return rng.choice(PLAIN)


def gen_word(rng, lay, mapper_real):
    b = gen_base(rng, lay, mapper_real)
    r = rng.random()
    if r < 0.45:
        return b
    if r < 0.65:
        return b + rng.choice(TRAIL)
    if r < 0.78:
        return rng.choice(LEAD) + b
    if r < 0.88:
        q = rng.choice(QUOTES)
        return q + b + q + rng.choice(['', ',', ')', ':'])
    return rng.choice(LEAD) + b + rng.choice(TRAIL)


def gen_message(rng, lay, mapper_real):
    n = rng.choice([1, 1, 2, 3, 4, 6, 9, 12])
    words = [gen_word(rng, lay, mapper_real) for _ in range(n)]
    if n >= 2 and rng.random() < 0.3:
        # nested keys: a directory and something under it
        if lay.dirs:
            d = rng.choice(lay.dirs)
            words[0] = d
            words[-1] = d + '/' + rng.choice(['q.h5', 'tmp', 'a/b'])
            if rng.random() < 0.5:
                words.reverse()
    if n >= 2 and rng.random() < 0.2:
        words[rng.randrange(n)] = words[0]      # repeated word
    s = rng.choice(['', '', ' ', '\n'])
    for i, w in enumerate(words):
        s += w
        if i + 1 < len(words):
            s += rng.choice(SEPS)
    s += rng.choice(['', '', '\n', ' '])
    return s


def gen_value(rng, lay, mapper_real, depth=0):
    r = rng.random()
    if depth >= 2 or r < 0.5:
        return gen_message(rng, lay, mapper_real)
    if r < 0.7:
        return [gen_value(rng, lay, mapper_real, depth + 1)
                for _ in range(rng.randint(0, 3))]
    if r < 0.9:
        keys = rng.sample(['query_path', 'tmp_dir', 'path', 'a', '/tmp',
                           'extended_result_dir', 'k'], rng.randint(0, 4))
        return {k: gen_value(rng, lay, mapper_real, depth + 1) for k in keys}
    return rng.choice([None, 3, 1.5, True, ('/tmp', 'x')])


# ---------------------------------------------------------------------------
# unit cases
# ---------------------------------------------------------------------------

def to_val(x):
    if isinstance(x, str):
        return {'s': x}
    if isinstance(x, list):
        return {'l': [to_val(v) for v in x]}
    if isinstance(x, dict):
        return {'d': [[k, to_val(v)] for k, v in x.items()]}
    return {'o': OTHER.setdefault(repr(x), len(OTHER))}


OTHER = {}


def from_val(j):
    if 's' in j:
        return j['s']
    if 'l' in j:
        return [from_val(v) for v in j['l']]
    if 'd' in j:
        return {k: from_val(v) for k, v in j['d']}
    return ('other', j['o'])


def canon_other(x):
    if isinstance(x, str):
        return x
    if isinstance(x, list):
        return [canon_other(v) for v in x]
    if isinstance(x, dict):
        return {k: canon_other(v) for k, v in x.items()}
    return ('other', OTHER.setdefault(repr(x), len(OTHER)))


def all_strings(x):
    if isinstance(x, str):
        yield x
    elif isinstance(x, list):
        for v in x:
            yield from all_strings(v)
    elif isinstance(x, dict):
        for v in x.values():
            yield from all_strings(v)


def call_impl(value):
    from cell_type_mapper.utils.cloud_utils import sanitize_paths
    try:
        return 'ok', sanitize_paths(copy.deepcopy(value))
    except ValueError as e:
        if 'is not in the subpath of' in str(e) or \
                'does not start with' in str(e):
            return 'relativeTo', None
        return 'exc:' + type(e).__name__, str(e)
    except Exception as e:     # noqa
        return 'exc:' + type(e).__name__, str(e)


def word_guarantee(msg, out, mapper):
    """the word-level guarantee on the real output, independently:
    returns (applicable, kind of problem or None, problem or None).
    hypothesis: no exposed word occurs inside another word of the message
    conclusion (words_clean): no word of the output whose quote-stripped
    form starts with '/' is exposed;
    conclusion (spec, if in addition no exposed word occurs inside a
    replacement): the output's words are the input's words with each exposed
    one replaced by its file name / package-relative path"""
    words = msg.split()
    keys = []
    for w in words:
        if w not in keys and exposed(w):
            keys.append(w)
    for k in keys:
        for w in words:
            if w != k and k in w:
                return False, None, None
    for w in out.split():
        s = strip_quotes(w)
        if s.startswith('/') and exposed(w):
            return True, 'exposed-word-remains', (
                'output word %r is an exposed absolute path' % w)
    try:
        safe = {k: safe_name(k, mapper) for k in keys}
    except RelativeToError:
        return True, None, None
    for k in keys:
        for v in safe.values():
            if k in v:
                return True, None, None
    want = [safe.get(w, w) for w in words]
    want = [w for w in want if w != '']
    if out.split() != want:
        return True, 'word-spec', (
            'output words %r are not the input words with the '
            'exposed ones replaced by name (%r)'
            % (out.split()[:8], want[:8]))
    return True, None, None


def check_unit(ctx, value, mapper, label, lay_root='', fake_pkg=None):
    """one sanitize_paths case: value is str / list / dict"""
    import cell_type_mapper
    saved = cell_type_mapper.__file__
    if fake_pkg:
        cell_type_mapper.__file__ = fake_pkg
    try:
        status, out = call_impl(value)
    finally:
        cell_type_mapper.__file__ = saved
    strings = list(all_strings(value))
    words = [w for s in strings for w in s.split()]
    n_exposed = sum(1 for w in set(words) if exposed(w))
    shape = json.dumps(value, default=repr).replace(lay_root, '<W>') \
        if lay_root else json.dumps(value, default=repr)
    ctx.case((label, shape) if n_exposed else None,
             sample={'kind': 'unit', 'value': value, 'status': status,
                     'out': out} if isinstance(value, str) else None)
    ctx.count('unit:%s:%s' % (label, status.split(':')[0]))
    ctx.count('unit_exposed_words:%d' % min(n_exposed, 3))
    detail = {'kind': 'unit', 'value': value, 'mapper': mapper,
              'fake_pkg': fake_pkg, 'label': label, 'lay_root': lay_root,
              'impl_status': status, 'impl_out': out}
    if status.startswith('exc:'):
        ctx.violation('C20/unit/raises-' + status[4:],
                      'sanitize_paths raises %s on %s: %s'
                      % (status[4:], label, out), detail)
        return
    failed = False
    if status == 'ok':
        # (i) predicate on the implementation alone
        outs = list(all_strings(out))
        if len(outs) != len(strings) or \
                canon_shape(out) != canon_shape(value):
            ctx.violation('C20/unit/structure-changed',
                          'sanitize_paths changed the shape of the structure',
                          detail)
            return
        n_app = 0
        for s, o in zip(strings, outs):
            app, kind, prob = word_guarantee(s, o, mapper)
            n_app += app
            if prob:
                failed = True
                detail['message'] = s
                detail['sanitized'] = o
                # a path left verbatim and a wrong replacement are different
                # failures: own signatures (with the whitespace class for the
                # dedicated separator cases)
                ctx.violation('C20/unit/%s%s' % (
                    kind, '/' + label if label.startswith('ws-') else ''),
                    'sanitize_paths(%r) -> %r: %s' % (s, o, prob), detail)
                break
        ctx.count('unit_guarantee_applicable:%s' % bool(n_app))
    # (ii) correspondence
    if ctx.driver_ok:
        host = host_json(words, mapper)
        if isinstance(value, str):
            res = ctx.model('sanitize.str', {'host': host, 's': value})
            mres = res['result']
            model = ('ok', mres['ok']) if 'ok' in mres else (mres['err'], None)
            # word census agrees with the independent one
            for w, pth, ex in res['words']:
                if ex != exposed(w):
                    ctx.violation(
                        'C20/harness/exposed-census',
                        'model isExposed(%r)=%s differs from the harness'
                        % (w, ex), detail, found_input=False)
                    return
        else:
            res = ctx.model('sanitize.val', {'host': host, 'v': to_val(value)})
            model = ('ok', from_val(res['ok'])) if 'ok' in res \
                else (res['err'], None)
        impl = (status, canon_other(out) if status == 'ok' else None)
        if impl != model:
            ctx.disagreements_checked += 1
            if not failed:
                detail['model'] = model
                detail['broken'] = ('correspondence CTM.Sanitize.sanitizeVal '
                                    '~ cloud_utils.sanitize_paths')
                ctx.violation(
                    'C20/correspondence/sanitize/%s/impl=%s/model=%s'
                    % (label, status, model[0]),
                    'correspondence sanitize_paths no longer checks: impl=%r '
                    'model=%r on %r' % (impl, model, value), detail,
                    found_input=False)


def canon_shape(x):
    if isinstance(x, str):
        return 's'
    if isinstance(x, list):
        return [canon_shape(v) for v in x]
    if isinstance(x, dict):
        return {k: canon_shape(v) for k, v in x.items()}
    return repr(x)


def check_parse(ctx, s):
    """pathlib parsing vs the model's parsePath (and the harness's norm)"""
    p = pathlib.PurePosixPath(s)
    impl = {'str': str(p), 'name': p.name, 'parent': str(p.parent)}
    ctx.evaluations += 1
    root, parts = norm(s)
    if pstr(root, parts) != impl['str']:
        ctx.violation('C20/harness/norm', 'harness norm(%r) != pathlib' % s,
                      {'kind': 'parse', 's': s}, found_input=False)
    if ctx.driver_ok:
        m = ctx.model('sanitize.parse', {'s': s})
        got = {k: m[k] for k in impl}
        if got != impl:
            ctx.violation('C20/correspondence/parsePath',
                          'parsePath(%r): model %r pathlib %r'
                          % (s, got, impl),
                          {'kind': 'parse', 's': s, 'broken':
                           'correspondence CTM.Sanitize.parsePath ~ pathlib'},
                          found_input=False)


def run_unit(ctx, n_layouts, n_per_layout):
    rng = ctx.rng
    mapper_real = mapper_root()
    for li in range(n_layouts):
        with pipeline.workdir('ctmverif_c20_') as wd:
            lay = Layout(rng, wd)
            fake = li % 2 == 1
            mapper = os.path.realpath(lay.pkg_parent) if fake else mapper_real
            fake_pkg = (lay.pkg_parent + '/cell_type_mapper/__init__.py'
                        if fake else None)
            for i in range(n_per_layout):
                if i % 5 == 4:
                    v = gen_value(rng, lay, mapper_real)
                    label = 'struct'
                else:
                    v = gen_message(rng, lay, mapper_real)
                    label = 'str'
                check_unit(ctx, v, mapper, label, lay.root, fake_pkg)
            # every kind of separator around an exposed path, in the shape
            # of the package's own multi-line messages ("The file\n{path}\n
            # contains ...")
            some = lay.files + lay.dirs
            for name, sep in WS_KINDS:
                pth = rng.choice(some)
                for msg in ('The file' + sep + pth + sep + 'contains x',
                            pth + sep + 'is not a file',
                            'copied to' + sep + "'" + pth + "'"):
                    check_unit(ctx, msg, mapper, 'ws-' + name, lay.root,
                               fake_pkg)
            for i in range(n_per_layout // 10):
                check_parse(ctx, strip_quotes(gen_word(rng, lay, mapper_real)))


# ---------------------------------------------------------------------------
# pipeline: scan real outputs
# ---------------------------------------------------------------------------

PATH_CHARS = re.compile(r'[A-Za-z0-9_.\-/~]')


def sensitive_roots(wd):
    roots = [str(wd), str(core.REPO), sys.prefix, sys.base_prefix,
             sys.exec_prefix, os.path.realpath(sys.executable)]
    try:
        import site
        roots += list(site.getsitepackages())
    except Exception:
        pass
    import numpy
    import h5py
    import anndata
    for mod in (numpy, h5py, anndata):
        roots.append(os.path.dirname(os.path.dirname(mod.__file__)))
    roots.append(mapper_root())
    out = []
    for r in roots:
        for x in (r, os.path.realpath(r)):
            if x not in out and x != '/':
                out.append(x)
    return out


def under_root(p, roots):
    for r in roots:
        if p == r or p.startswith(r.rstrip('/') + '/'):
            return r
    return None


def scan_string(s, roots):
    """every '/'-started run (not preceded by a path character) -> does any
    prefix name an existing file/dir at or under a sensitive root?"""
    leaks = []
    n = len(s)
    for i, c in enumerate(s):
        if c != '/':
            continue
        if i > 0 and PATH_CHARS.match(s[i - 1]):
            continue
        j = i
        while j < n and not s[j].isspace():
            j += 1
        run = s[i:j]
        # prefixes: at every position (punctuation may follow the path)
        best = None
        for e in range(len(run), 1, -1):
            p = run[:e]
            if p.endswith('/') and e > 1:
                continue
            if under_root(os.path.normpath(p), roots) is None:
                continue
            if os.path.lexists(p):
                best = p
                break
        if best is not None:
            leaks.append(best)
    return leaks


def strings_of(x, path=''):
    if isinstance(x, str):
        yield path, x
    elif isinstance(x, dict):
        for k, v in x.items():
            yield path + '/' + str(k) + '#key', str(k)
            yield from strings_of(v, path + '/' + str(k))
    elif isinstance(x, (list, tuple)):
        for i, v in enumerate(x):
            yield from strings_of(v, path + '[%d]' % i)


AWKWARD = ['in,put', '(x)', "it's", 'a=b', 'c:d', '[l]', 'dot.d', 'tmp',
           'x;y', 'T,', "'q'", '{b}', 'scratch', 'out)put', 'da"ta']

FAILURES = ['success', 'missing_query', 'missing_stats', 'missing_markers',
            'bad_taxonomy', 'no_marker_overlap', 'unknown_reference_marker',
            'negative_raw', 'duplicate_cells', 'duplicate_genes',
            'corrupt_query', 'corrupt_stats', 'corrupt_markers',
            'query_is_dir', 'csc_query', 'worker_raise', 'worker_exit',
            # reach the package's multi-line messages that carry a path
            # between newlines (score_utils.read_precomputed_stats)
            'stats_no_sum', 'stats_no_n_cells',
            # results stored in the query file (obsm_key): the file already
            # carries the key (e.g. the same run a second time) -> error with
            # obsm_clobber False, overwrite with True; and a first write
            'obsm_exists_noclobber', 'obsm_exists_clobber', 'obsm_fresh']


def build_case(rng, wd, failure, awkward=True, use_tmp=None):
    """lay out inputs for one run; returns (config, description)"""
    import numpy as np
    import h5py
    names = rng.sample(AWKWARD, 4) if awkward else ['in', 'out', 'tmp', 'mk']
    nest = rng.random() < 0.5
    base = wd / rng.choice(AWKWARD) if (awkward and nest) else wd
    d_in, d_out, d_tmp, d_mk = [base / n for n in names]
    for d in (d_in, d_out, d_tmp, d_mk):
        d.mkdir(parents=True, exist_ok=True)
    mp = pipeline.MappingProblem(rng, max_depth=3)
    if failure.startswith('worker_'):
        mp = pipeline.MappingProblem(rng, max_depth=3,
                                     n_cells=rng.randint(5, 12))
    encoding = 'csc' if failure == 'csc_query' else rng.choice(
        ['dense', 'csr'])
    if failure == 'negative_raw':
        mp.X[rng.randrange(mp.X.shape[0]), rng.randrange(mp.X.shape[1])] = -3.0
    if failure == 'duplicate_cells' and len(mp.cell_ids) > 1:
        mp.cell_ids[1] = mp.cell_ids[0]
    if failure == 'duplicate_genes' and len(mp.query_genes) > 1:
        mp.query_genes[1] = mp.query_genes[0]
    if failure == 'no_marker_overlap':
        mp.markers = {p: ['zz_not_a_gene_%d' % i for i in range(3)]
                      for p in mp.parents()}
        mp.ref_genes_extra = True
    if failure == 'unknown_reference_marker':
        for p in mp.markers:
            mp.markers[p] = mp.markers[p] + ['not_in_reference']
            break
    if failure == 'bad_taxonomy':
        h = mp.tree['hierarchy']
        if len(h) > 1:
            # a child listed under two parents
            lvl = h[0]
            ks = list(mp.tree[lvl].keys())
            kid = mp.tree[lvl][ks[0]][0]
            mp.tree[lvl]['zz_extra_parent'] = [kid]
        else:
            mp.tree['hierarchy'] = h + ['missing_level']
    qname = rng.choice(['query.h5ad', 'q,1.h5ad', 'q(1).h5ad', "q'.h5ad",
                        'q=1.h5ad'])
    sname = rng.choice(['stats.h5', 's,t.h5', 's[1].h5'])
    mname = rng.choice(['markers.json', 'm(k).json', 'm:k.json'])
    stats = d_in / sname
    query = d_in / qname
    markers = d_mk / mname
    try:
        pipeline.write_stats_file(stats, mp.tree, mp.ref_genes, mp.leaf_sum,
                                  mp.leaf_n)
    except Exception:
        if failure != 'bad_taxonomy':
            raise
    if failure == 'no_marker_overlap':
        # markers must be reference genes that the query lacks
        extra = ['zz_not_a_gene_%d' % i for i in range(3)]
        genes = mp.ref_genes + extra
        pipeline.write_stats_file(
            stats, mp.tree, genes,
            {k: np.concatenate([v, np.ones(3)])
             for k, v in mp.leaf_sum.items()}, mp.leaf_n)
    pipeline.write_h5ad(query, mp.X, mp.cell_ids, mp.query_genes,
                        encoding=encoding)
    markers.write_text(json.dumps(mp.markers))
    if failure == 'missing_query':
        query.unlink()
    if failure == 'missing_stats':
        stats.unlink()
    if failure == 'missing_markers':
        markers.unlink()
    if failure == 'corrupt_query':
        b = query.read_bytes()
        query.write_bytes(b[:len(b) // 3] if rng.random() < 0.5
                          else b'not an hdf5 file at all')
    if failure == 'corrupt_stats':
        b = stats.read_bytes()
        stats.write_bytes(b[:len(b) // 2] if rng.random() < 0.5
                          else b'junk' * 100)
    if failure.startswith('obsm_exists'):
        import anndata
        import pandas as pd
        a = anndata.read_h5ad(query)
        a.obsm['ctm_results'] = pd.DataFrame(
            {'x': np.arange(a.shape[0], dtype=float)}, index=a.obs.index)
        a.write_h5ad(query)
    if failure in ('stats_no_sum', 'stats_no_n_cells'):
        with h5py.File(stats, 'a') as f:
            del f['sum' if failure == 'stats_no_sum' else 'n_cells']
    if failure == 'corrupt_markers':
        markers.write_text('{"None": ["g1", ')
    if failure == 'query_is_dir':
        query.unlink()
        query.mkdir()
    cfg = pipeline.mapping_config(
        query, stats, markers, d_out,
        d_tmp if (rng.random() < 0.8 if use_tmp is None else use_tmp)
        else None,
        n_processors=rng.choice([1, 2]), chunk_size=rng.choice([3, 10]),
        bootstrap_iteration=rng.choice([1, 5]), cloud_safe=True,
        csv=rng.random() < 0.7)
    if failure.startswith('obsm_'):
        cfg['obsm_key'] = 'ctm_results'
        cfg['obsm_clobber'] = failure == 'obsm_exists_clobber'
    return cfg, {'failure': failure, 'dirs': [str(d_in), str(d_out),
                                              str(d_tmp), str(d_mk)],
                 'encoding': encoding}


def read_hdf5_blob(path):
    import h5py
    out = {}
    with h5py.File(path, 'r') as f:
        for k in ('config', 'log', 'metadata'):
            if k in f:
                v = f[k][()]
                if isinstance(v, bytes):
                    v = v.decode('utf-8')
                try:
                    out[k] = json.loads(v)
                except Exception:
                    out[k] = v
    return out


SEEN_TEXTS = []     # log lines / error texts of the runs (for msg_sites)


def scan_outputs(ctx, cfg, desc, wd, run, roots):
    """returns list of (where, leaked prefix, string)"""
    found = []
    outs = {}
    if run.get('error') is not None:
        SEEN_TEXTS.append(str(run['error']))
    if run['json'] is not None:
        outs['json'] = {k: run['json'].get(k) for k in ('config', 'log',
                                                         'metadata')}
    if cfg.get('hdf5_result_path') and \
            pathlib.Path(cfg['hdf5_result_path']).is_file():
        try:
            outs['hdf5'] = read_hdf5_blob(cfg['hdf5_result_path'])
        except Exception as e:
            ctx.log('cannot read hdf5 output: %r' % e)
    if cfg.get('log_path') and pathlib.Path(cfg['log_path']).is_file():
        outs['logfile'] = {'log': pathlib.Path(
            cfg['log_path']).read_text().splitlines()}
    csvp = cfg.get('csv_result_path')
    if csvp and pathlib.Path(csvp).is_file():
        outs['csv'] = {'header': [l for l in pathlib.Path(
            csvp).read_text().splitlines() if l.startswith('#')]}
    for where, blob in outs.items():
        for p, s in strings_of(blob):
            if len(SEEN_TEXTS) < 20000:
                SEEN_TEXTS.append(s)
            for leak in scan_string(s, roots):
                found.append((where + p, leak, s))
    return found, outs


def leak_class(leak, cfg, desc, wd):
    """stable class of a leaked path for the signature"""
    mr = mapper_root()
    if leak.startswith(str(wd)):
        rel = leak[len(str(wd)):]
        for k, d in zip(('input', 'output', 'scratch', 'markers'),
                        desc['dirs']):
            if leak.startswith(d):
                return k + '-dir'
        return 'work-root'
    if leak.startswith(mr) or leak.startswith(str(core.REPO)):
        return 'package'
    return 'installation'


@contextlib.contextmanager
def injected_worker_failure(rng, failure, cfg):
    """C14-style worker failure for the mapping stage: the worker of one
    chunk raises / exits (the patch is inherited by the forked workers;
    their stderr is silenced)"""
    if not failure.startswith('worker_'):
        yield
        return
    from cell_type_mapper.type_assignment import election
    orig = election._run_type_assignment_on_h5ad_worker
    cfg['type_assignment']['chunk_size'] = 2
    cfg['type_assignment']['n_processors'] = 2
    r0 = 2 * rng.randrange(0, 2)
    mode = failure.split('_')[1]

    def wrapper(*args, **kwargs):
        if kwargs.get('r0') == r0:
            if mode == 'exit':
                os._exit(3)
            raise RuntimeError('injected worker failure in %s'
                               % cfg['query_path'])
        orig(*args, **kwargs)

    election._run_type_assignment_on_h5ad_worker = wrapper
    sys.stderr.flush()
    saved = os.dup(2)
    devnull = os.open(os.devnull, os.O_WRONLY)
    os.dup2(devnull, 2)
    try:
        yield
    finally:
        election._run_type_assignment_on_h5ad_worker = orig
        os.dup2(saved, 2)
        os.close(saved)
        os.close(devnull)


COMBOS = ['both', 'json-only', 'hdf5-only', 'both-nolog', 'json-only-nolog',
          'hdf5-only-nolog']


def apply_combo(cfg, combo):
    """which of the outputs the run is asked for"""
    if combo.startswith('json-only'):
        cfg['hdf5_result_path'] = None
    if combo.startswith('hdf5-only'):
        cfg['extended_result_path'] = None
    if combo.endswith('-nolog'):
        cfg['log_path'] = None


def run_mapping_cfg(config):
    """run_mapping with exactly the outputs the config names (any of the
    JSON, HDF5 and log outputs may be None)"""
    from cell_type_mapper.cli.from_specified_markers import run_mapping as rm
    err = None
    try:
        rm(config=copy.deepcopy(config),
           output_path=config['extended_result_path'],
           log_path=config.get('log_path'),
           hdf5_output_path=config.get('hdf5_result_path'))
    except KeyboardInterrupt:
        raise
    except BaseException as e:   # noqa
        err = e
    out = None
    if config['extended_result_path'] is not None:
        p = pathlib.Path(config['extended_result_path'])
        if p.is_file():
            try:
                out = json.loads(p.read_text())
            except Exception:
                out = None
    return {'ok': err is None, 'error': err, 'json': out}


def check_run(ctx, rng, failure, awkward=True, cloud_safe=None,
              combo='both', use_tmp=None):
    with pipeline.workdir('ctmverif_c20p_') as wd:
        cfg, desc = build_case(rng, wd, failure, awkward, use_tmp)
        apply_combo(cfg, combo)
        roots = sensitive_roots(wd)
        if cloud_safe is not None:
            cfg['cloud_safe'] = cloud_safe
        # with tmp_dir=None run_mapping leaves query_marker_*.h5 in the system
        # temp directory (C19's business): give it a private one
        saved_tmp = tempfile.tempdir
        (wd / 'systmp').mkdir(exist_ok=True)
        tempfile.tempdir = str(wd / 'systmp')
        try:
            with pipeline.quiet(), \
                    injected_worker_failure(rng, failure, cfg):
                run = run_mapping_cfg(cfg)
        finally:
            tempfile.tempdir = saved_tmp
            # the exception keeps the FileTracker alive through its
            # traceback; drop it here so that __del__ prints inside quiet()
            if run['error'] is not None:
                run['error'] = repr(run['error'])
            with pipeline.quiet():
                gc.collect()
        status = 'ok' if run['ok'] else 'error'
        ctx.count('run:%s:%s' % (failure, status))
        ctx.count('outputs:%s' % combo)
        found, outs = scan_outputs(ctx, cfg, desc, wd, run, roots)
        wrote_log = bool(outs)
        ctx.case(('run', failure, status, combo, bool(cfg['tmp_dir']),
                  tuple(os.path.basename(d) for d in desc['dirs']))
                 if wrote_log else None,
                 sample={'kind': 'run', 'failure': failure, 'status': status,
                         'outputs': sorted(outs)})
        ctx.traces += 1
        err = run['error'][:300] if run['error'] is not None else None
        if cloud_safe is False:
            return run, found
        if found:
            where, leak, s = found[0]
            cls = leak_class(leak, cfg, desc, wd)
            ctx.violation(
                'C20/pipeline/leak/%s/%s%s' % (
                    failure, cls, '' if combo == 'both' else '/' + combo),
                'cloud_safe run (%s, %s, outputs: %s) reveals %r in %s: %r'
                % (failure, status, combo, leak, where, s[:300]),
                {'kind': 'run', 'failure': failure, 'awkward': awkward,
                 'combo': combo, 'use_tmp': use_tmp,
                 'config': cfg, 'where': where, 'leak': leak,
                 'string': s, 'error': err,
                 'all': [(w, l) for w, l, _ in found[:10]],
                 'rng_state': None})
        # the config recorded = the model's safeConfig of the config given
        recorded = (outs.get('json') or outs.get('hdf5') or {}).get('config')
        if recorded is not None:
            for k in ('tmp_dir', 'extended_result_dir'):
                if k in recorded:
                    ctx.violation('C20/pipeline/config-key/' + k,
                                  'cloud_safe config still has key ' + k,
                                  {'kind': 'run', 'failure': failure,
                                   'config': cfg, 'recorded': recorded})
            if ctx.driver_ok:
                words = [w for s in all_strings(cfg) for w in s.split()]
                host = host_json(words, mapper_root())
                m = ctx.model('sanitize.config', {
                    'host': host, 'cloudSafe': True, 'config': to_val(cfg)})
                want = from_val(m['ok']) if 'ok' in m else m
                if canon_other(recorded_canon(recorded, cfg)) != want:
                    ctx.disagreements_checked += 1
                    if not found:
                        ctx.violation(
                            'C20/correspondence/safeConfig',
                            'recorded config differs from the model',
                            {'kind': 'run', 'failure': failure,
                             'config': cfg, 'recorded': recorded,
                             'model': want, 'broken': 'correspondence '
                             'CTM.Sanitize.safeConfig ~ run_mapping'},
                            found_input=False)
        # log lines of JSON, HDF5 and the file agree with each other
        jl = (outs.get('json') or {}).get('log')
        hl = (outs.get('hdf5') or {}).get('log')
        if jl is not None and hl is not None and jl != hl:
            ctx.violation('C20/pipeline/log-differs', 'JSON and HDF5 logs '
                          'differ', {'kind': 'run', 'failure': failure,
                                     'config': cfg}, found_input=False)
        return run, found


def recorded_canon(recorded, cfg):
    """JSON read-back: None/number/bool leaves are 'other' values; map them to
    the same tags the given config's leaves got"""
    def walk(r, c):
        if isinstance(r, dict) and isinstance(c, dict):
            return {k: walk(v, c.get(k)) for k, v in r.items()}
        if isinstance(r, list) and isinstance(c, (list, tuple)):
            return [walk(v, c[i] if i < len(c) else None)
                    for i, v in enumerate(r)]
        if isinstance(r, str):
            return r
        return c if not isinstance(c, (str, list, dict)) else r
    return walk(recorded, cfg)


# ---------------------------------------------------------------------------

def corpus_dir():
    return core.VERIF / 'corpus' / 'C20'


def run(ctx):
    rng = ctx.rng
    cdir = corpus_dir()
    for f in sorted(cdir.glob('*.json')) if cdir.is_dir() else []:
        replay(ctx, json.loads(f.read_text()), from_corpus=True)
    if ctx.tier == 'quick':
        run_unit(ctx, n_layouts=12, n_per_layout=250)
        runs = [(f, True, rng.choice(COMBOS)) for f in FAILURES] + \
               [('success', False, 'both'),
                # every output alone, with a traceback in the log
                ('negative_raw', True, 'hdf5-only'),
                ('missing_markers', True, 'hdf5-only-nolog'),
                ('unknown_reference_marker', True, 'json-only-nolog'),
                ('success', True, 'hdf5-only'),
                ('bad_taxonomy', True, 'json-only')]
        extra = [('stats_no_sum', True, 'both', False),
                 ('stats_no_n_cells', True, 'both', True),
                 ('stats_no_sum', False, 'hdf5-only', True)]
    else:
        run_unit(ctx, n_layouts=60, n_per_layout=400)
        runs = [(f, True, c) for f in FAILURES for c in COMBOS] + \
               [(f, False, rng.choice(COMBOS)) for f in FAILURES
                for _ in range(2)]
        extra = [(f, a, c, t) for f in ('stats_no_sum', 'stats_no_n_cells')
                 for a in (True, False) for c in ('both', 'hdf5-only')
                 for t in (True, False)]
    for failure, awkward, combo in runs:
        check_run(ctx, rng, failure, awkward, combo=combo)
    for failure, awkward, combo, use_tmp in extra:
        check_run(ctx, rng, failure, awkward, combo=combo, use_tmp=use_tmp)
    # which of the package's path-carrying messages did the runs reach?
    try:
        site_list = msg_sites.sites(core.REPO)
        reached, unreached = msg_sites.classify(site_list, SEEN_TEXTS)
        ctx.extra_cov['path_message_sites'] = {
            'total': len(site_list), 'reached': reached,
            'unreached': unreached}
    except Exception as e:     # coverage information only
        ctx.log('msg_sites failed: %r' % e)
    # the scanner is not blind: the same kind of run without cloud_safe
    # must show paths
    _, found = check_run(ctx, rng, 'success', True, cloud_safe=False)
    ctx.count('scanner_sanity_leaks_seen', len(found))
    if not found:
        raise core.InfraError('substring scanner found no path in the '
                              'outputs of a run with cloud_safe=False')


def replay(ctx, data, from_corpus=False):
    d = data.get('detail', data)
    kind = d.get('kind')
    if kind == 'unit':
        # corpus/replay messages use absolute paths of the host as recorded
        check_unit(ctx, d['value'], d.get('mapper') or mapper_root(),
                   d.get('label', 'replay'), d.get('lay_root', ''),
                   None)
    elif kind == 'parse':
        check_parse(ctx, d['s'])
    elif kind == 'run':
        import random
        r = random.Random(d.get('seed', 0))
        # re-run the failure class in fresh layouts (names are re-drawn from
        # the same pools); a few attempts
        for i in range(int(d.get('attempts', 6))):
            _, found = check_run(ctx, r, d['failure'], d.get('awkward', True),
                                 combo=d.get('combo', 'both'),
                                 use_tmp=d.get('use_tmp'))
            if found:
                break
    elif not from_corpus:
        print('nothing to replay for kind', kind)
