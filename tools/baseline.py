#!/usr/bin/env python3
"""Run the pinned test command and compare with BASELINE.json stable_pass.
usage: baseline.py [repo_dir]   (exit 0 iff every stable_pass test passes)"""
import json, subprocess, sys, tempfile, os, xml.etree.ElementTree as ET
repo = sys.argv[1] if len(sys.argv) > 1 else '/repo'
base = json.load(open('/root/.vp/BASELINE.json'))
want = set(base['stable_pass'])
with tempfile.TemporaryDirectory() as d:
    x = os.path.join(d, 'j.xml')
    env = dict(os.environ)
    env.pop('CELL_TYPE_MAPPER_VERIF', None)
    env['PYTHONPATH'] = os.path.join(repo, 'src')
    subprocess.run(['/venv/bin/python', '-m', 'pytest', '-q', '-p', 'no:cacheprovider',
                    '--timeout=900', '--continue-on-collection-errors', '-x' if False else '-q',
                    '--junitxml=' + x] + sys.argv[2:], cwd=repo, env=env,
                   stdout=subprocess.DEVNULL, stderr=subprocess.DEVNULL)
    passed = set()
    for tc in ET.parse(x).getroot().iter('testcase'):
        if not any(ch.tag in ('failure', 'error', 'skipped') for ch in tc):
            passed.add(tc.get('classname') + '::' + tc.get('name'))
missing = sorted(want - passed)
print('stable_pass=%d passed_now=%d missing=%d' % (len(want), len(passed & want), len(missing)))
for m in missing[:40]:
    print('  MISSING', m)
sys.exit(1 if missing else 0)
