#!/usr/bin/env python3
"""
Run the checks against every seeded change under seeded/<id>/.

usage: tools/seeded.py [--only ID ...] [--tier quick|thorough] [--props C01,C05]
For each seeded change: make a scratch worktree of /repo (outside /repo and
/verif), apply patch.diff, run `CTM_REPO=<worktree> ./check <prop>` for the
property named in meta.json (and any listed in meta['also_run']), record exit
codes and VIOLATION lines in seeded/RESULTS.json / RESULTS.md, remove the
worktree.  /repo itself is never touched.
"""
import argparse, json, os, pathlib, subprocess, sys, time, shutil
V = pathlib.Path(__file__).resolve().parents[1]

def sh(cmd, **kw):
    return subprocess.run(cmd, stdout=subprocess.PIPE, stderr=subprocess.STDOUT, text=True, **kw)

def main():
    ap = argparse.ArgumentParser()
    ap.add_argument('--only', nargs='*')
    ap.add_argument('--tier', default='quick')
    ap.add_argument('--props', default=None)
    ap.add_argument('--seed', default='0')
    a = ap.parse_args()
    results = {}
    rpath = V / 'seeded' / 'RESULTS.json'
    if rpath.is_file():
        results = json.loads(rpath.read_text())
    for d in sorted((V / 'seeded').iterdir()):
        if not (d / 'patch.diff').is_file():
            continue
        if a.only and d.name not in a.only:
            continue
        meta = json.loads((d / 'meta.json').read_text())
        if meta.get('superseded_by'):
            # the patch no longer applies to /repo's HEAD; a rebased copy exists
            results[d.name] = {'superseded_by': meta['superseded_by']}
            continue
        props = a.props.split(',') if a.props else [meta['property']] + meta.get('also_run', [])
        wt = pathlib.Path('/tmp') / ('seedwt_%s_%d' % (d.name, os.getpid()))
        sh(['git', '-C', '/repo', 'worktree', 'remove', '--force', str(wt)])
        r = sh(['git', '-C', '/repo', 'worktree', 'add', '--detach', str(wt), 'HEAD'])
        try:
            r = sh(['git', '-C', str(wt), 'apply', str(d / 'patch.diff')])
            if r.returncode != 0:
                results[d.name] = {'error': 'patch does not apply: ' + r.stdout[-300:]}
                print(d.name, 'PATCH FAILED')
                continue
            entry = {'property': meta['property'], 'checks': {}}
            for p in props:
                env = dict(os.environ, CTM_REPO=str(wt), VERIF_SEED=a.seed)
                t0 = time.time()
                r = sh([str(V / 'check'), p, '--tier', a.tier], cwd=V, env=env)
                viol = [l for l in r.stdout.splitlines() if l.startswith('VIOLATION')]
                entry['checks'][p] = {'exit': r.returncode, 'violations': viol[:6],
                                      'wall_s': round(time.time() - t0, 1), 'tier': a.tier}
                print(d.name, p, 'exit', r.returncode, viol[:2])
            entry['caught'] = any(c['exit'] == 1 for c in entry['checks'].values())
            entry['caught_with_input'] = any(
                c['exit'] == 1 and any('no-failing-input-found' not in v for v in c['violations'])
                for c in entry['checks'].values())
            results[d.name] = entry
        finally:
            sh(['git', '-C', '/repo', 'worktree', 'remove', '--force', str(wt)])
            shutil.rmtree(wt, ignore_errors=True)
    # evidence files were rewritten by the mutated runs: caller should re-run
    rpath.write_text(json.dumps(results, indent=1))
    lines = ['| seeded change | property | caught | with failing input | checks |', '|---|---|---|---|---|']
    for k, e in sorted(results.items()):
        if 'superseded_by' in e:
            lines.append(f'| {k} | - | superseded by {e["superseded_by"]} | | |')
            continue
        if 'error' in e:
            lines.append(f'| {k} | ? | error | | {e["error"][:60]} |')
            continue
        cs = '; '.join(f'{p}: exit {c["exit"]}' for p, c in e['checks'].items())
        lines.append(f'| {k} | {e["property"]} | {"yes" if e["caught"] else "NO"} | {"yes" if e["caught_with_input"] else "no"} | {cs} |')
    (V / 'seeded' / 'RESULTS.md').write_text('\n'.join(lines) + '\n')

if __name__ == '__main__':
    main()
