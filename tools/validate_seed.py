#!/usr/bin/env python3
"""
Validate candidate seeded changes (/work/mut/<id>/) in a scratch worktree of
/repo's HEAD and, if confirmed, copy them to seeded/<id>/:
  demo.py passes on the clean tree, fails with the patch, and the pinned test
  suite (BASELINE stable_pass) still passes with the patch.
usage: tools/validate_seed.py <id> [<id> ...]
"""
import json, os, pathlib, shutil, subprocess, sys, time
V = pathlib.Path(__file__).resolve().parents[1]
SRC = pathlib.Path('/work/mut')

def sh(cmd, **kw):
    return subprocess.run(cmd, stdout=subprocess.PIPE, stderr=subprocess.STDOUT, text=True, **kw)

def demo(wt, path):
    env = dict(os.environ, PYTHONPATH=str(wt / 'src'))
    env.pop('CELL_TYPE_MAPPER_VERIF', None)
    if path.name.startswith('test_'):
        cmd = ['/venv/bin/python', '-m', 'pytest', '-q', '-p', 'no:cacheprovider', str(path)]
    else:
        cmd = ['/venv/bin/python', str(path)]
    try:
        r = sh(cmd, env=env, cwd='/tmp', timeout=600)
        return r.returncode, r.stdout[-600:]
    except subprocess.TimeoutExpired:
        return 124, 'timeout'

for sid in sys.argv[1:]:
    d = SRC / sid
    head = sh(['git', '-C', '/repo', 'rev-parse', '--short', 'HEAD']).stdout.strip()
    wt = pathlib.Path('/tmp/valwt_' + sid)
    sh(['git', '-C', '/repo', 'worktree', 'remove', '--force', str(wt)])
    sh(['git', '-C', '/repo', 'worktree', 'add', '--detach', str(wt), 'HEAD'])
    rec = {'validated_at_repo_head': head}
    try:
        dm = d / 'demo.py'
        if not dm.is_file():
            cands = list(d.glob('*.py'))
            dm = cands[0]
        rc0, out0 = demo(wt, dm)
        r = sh(['git', '-C', str(wt), 'apply', str(d / 'patch.diff')])
        if r.returncode != 0:
            print(sid, 'PATCH DOES NOT APPLY', r.stdout[-300:]); continue
        rc1, out1 = demo(wt, dm)
        b = sh(['python3', str(V / 'tools' / 'baseline.py'), str(wt)])
        ok_base = 'missing=0' in b.stdout
        rec.update({'demo_clean_exit': rc0, 'demo_patched_exit': rc1, 'demo_patched_tail': out1[-300:],
                    'baseline': b.stdout.strip().splitlines()[0] if b.stdout.strip() else 'no output'})
        good = (rc0 == 0 and rc1 != 0 and ok_base)
        print(sid, 'CONFIRMED' if good else 'REJECTED', rec['demo_clean_exit'], rec['demo_patched_exit'], rec['baseline'])
        if good:
            dst = V / 'seeded' / sid
            dst.mkdir(parents=True, exist_ok=True)
            shutil.copy(d / 'patch.diff', dst / 'patch.diff')
            shutil.copy(dm, dst / dm.name)
            meta = json.loads((d / 'meta.json').read_text())
            meta['confirmed_by_coordinator'] = rec
            meta['what_i_ran'] = ('scratch worktree of /repo HEAD %s: demo on clean tree (exit 0), git apply patch.diff, '
                                  'demo again (exit %d), tools/baseline.py <worktree> (%s)' % (head, rc1, rec['baseline']))
            (dst / 'meta.json').write_text(json.dumps(meta, indent=1))
    finally:
        sh(['git', '-C', '/repo', 'worktree', 'remove', '--force', str(wt)])
        shutil.rmtree(wt, ignore_errors=True)
