#!/bin/sh
# tools/merge_branch.sh <branch>...  : merge agent branches into main, resolving the generated files
cd "$(dirname "$0")/.." || exit 1
git add -A; git commit -q -m "wip before merge" 2>/dev/null
for b in "$@"; do
  git merge --no-edit "$b" >/tmp/merge_$b.log 2>&1
  for f in $(git diff --name-only --diff-filter=U); do
    case $f in
      known_findings.json|MANIFEST.json|evidence/*|seeded/*|equiv/*|irrelevant/*|lean/CTM/Generated/*) git checkout --ours "$f"; git add "$f";;
      *) echo "UNRESOLVED $f in $b"; unresolved=1;;
    esac
  done
  python3 tools/gen_manifest.py >/dev/null
  git add -A; git commit -q -m "Merge $b" 2>/dev/null
  if git branch --merged | grep -q " $b\$"; then echo "merged $b"; else echo "NOT MERGED $b"; tail -3 /tmp/merge_$b.log; fi
done
