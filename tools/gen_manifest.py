#!/usr/bin/env python3
"""Regenerate MANIFEST.json from tools/manifest_src.json (claimed checks +
not_applicable).  Keeps the manifest valid by construction."""
import json, pathlib
V = pathlib.Path(__file__).resolve().parents[1]
src = json.loads((V / 'tools' / 'manifest_src.json').read_text())
for frag in sorted((V / 'tools' / 'manifest.d').glob('*.json')):
    f = json.loads(frag.read_text())
    src['claimed'].update(f.get('claimed', {}))
    src['not_claimed'].update(f.get('not_claimed', {}))
props = [json.loads(l) for l in (V / 'properties.jsonl').read_text().splitlines() if l.strip()]
checks = []
na = []
for p in props:
    pid = p['id']
    c = src['claimed'].get(pid)
    if c is None:
        na.append({'property_id': pid, 'reason': src['not_claimed'].get(
            pid, 'not claimed yet: the Lean model, theorems and correspondence suite for this property are not built at this commit (see DESIGN.md section 5 for the plan)')})
        continue
    checks.append({
        'property_id': pid,
        'quick_cmd': f'./check {pid} --tier quick',
        'thorough_cmd': f'./check {pid} --tier thorough',
        'evidence_file': f'evidence/{pid}.json',
        'replay_cmd_template': f'./check {pid} --replay {{path}}',
        'engine': 'lean4-ctm',
        'level_claimed': {'category': 'proof', 'text': c['text'], 'design_ref': c.get('design_ref', f'DESIGN.md section 5, {pid}')},
        'level_note': c['note'],
        'technique': c['technique'],
    })
m = {
    'version': 1,
    'setup_cmd': 'cd lean && lake build',
    'hooks': src['hooks'],
    'engines': [{'name': 'lean4-ctm', 'path': 'lean/', 'serves_properties': sorted(src['claimed']),
                 'kind_free_text': 'Lean 4 model + theorems (lean/CTM/Model, lean/CTM/Props), JSON-lines driver (lean/Driver.lean) and Python correspondence harness (harness/) run by ./check'}],
    'checks': checks,
    'notes': src['notes'],
    'not_applicable': na,
}
(V / 'MANIFEST.json').write_text(json.dumps(m, indent=1) + '\n')
print('claimed', len(checks), 'not claimed', len(na))
