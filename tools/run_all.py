#!/usr/bin/env python3
"""Run every claimed check: tools/run_all.py [--tier quick] [--seeds 0,1,2] [--jobs 4] [--props C01,C02]"""
import argparse, json, os, pathlib, subprocess, sys, time
from concurrent.futures import ThreadPoolExecutor
V = pathlib.Path(__file__).resolve().parents[1]
ap = argparse.ArgumentParser()
ap.add_argument('--tier', default='quick'); ap.add_argument('--seeds', default='0')
ap.add_argument('--jobs', type=int, default=4); ap.add_argument('--props', default=None)
a = ap.parse_args()
m = json.loads((V / 'MANIFEST.json').read_text())
props = a.props.split(',') if a.props else [c['property_id'] for c in m['checks']]
jobs = [(p, s) for s in a.seeds.split(',') for p in props]
def run(job):
    p, s = job
    t0 = time.time()
    r = subprocess.run([str(V / 'check'), p, '--tier', a.tier], cwd=V, env=dict(os.environ, VERIF_SEED=s),
                       stdout=subprocess.PIPE, stderr=subprocess.STDOUT, text=True)
    lines = [l for l in r.stdout.splitlines() if l.startswith(('VIOLATION', 'KNOWN-FINDING', 'INFRA'))]
    return p, s, r.returncode, round(time.time() - t0, 1), lines, r.stdout.splitlines()[-1:] 
bad = 0
with ThreadPoolExecutor(a.jobs) as ex:
    for p, s, rc, dt, lines, last in ex.map(run, jobs):
        flag = '' if rc == 0 else '   <<<<<<'
        print(f'{p} seed={s} rc={rc} {dt}s {last[0] if last else ""}{flag}')
        if rc != 0:
            bad += 1
            for l in lines[:5]: print('    ', l[:300])
print('non-zero exits:', bad)
sys.exit(1 if bad else 0)
