#!/usr/bin/env python3
"""Rewrite the findings table of DESIGN.md from known_findings.json."""
import json, pathlib
V = pathlib.Path(__file__).resolve().parents[1]
f = json.loads((V / 'known_findings.json').read_text())['findings']
rows = ['| property | status | commit | signature | what failed |', '|---|---|---|---|---|']
for e in sorted(f, key=lambda e: (e['property'], e['status'], e['signature'])):
    what = e['what']
    for pre in ('fixed: property=%s %s ' % (e['property'], e.get('commit', '')), 'KNOWN: '):
        if what.startswith(pre):
            what = what[len(pre):]
    rows.append('| %s | %s | %s | `%s` | %s |' % (e['property'], e['status'], e.get('commit', ''), e['signature'], what.replace('|', '/')))
p = V / 'DESIGN.md'
s = p.read_text()
a = s.index('<!-- FINDINGS-BEGIN -->') + len('<!-- FINDINGS-BEGIN -->')
b = s.index('<!-- FINDINGS-END -->')
p.write_text(s[:a] + '\n' + '\n'.join(rows) + '\n' + s[b:])
print(len(f), 'findings')
