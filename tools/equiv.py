#!/usr/bin/env python3
"""
Run the checks against every behaviour-preserving edit under equiv/<id>/
(patch.diff + meta.json, written by fresh sub-agents that saw only the
property text).  The expectation is the opposite of tools/seeded.py: every
check must exit 0 and print no VIOLATION line.  A check that fails here is
either a false alarm of the harness or a tie (translator / correspondence)
that is too tightly bound to the shape of the source; the brief allows the
latter to be reported as `no-failing-input-found`, but each one is looked at.

usage: tools/equiv.py [--only ID ...] [--tier quick|thorough] [--props C01,C05]
Writes equiv/RESULTS.json / RESULTS.md.  /repo itself is never touched.
"""
import argparse, json, os, pathlib, subprocess, time, shutil
V = pathlib.Path(__file__).resolve().parents[1]

def sh(cmd, **kw):
    return subprocess.run(cmd, stdout=subprocess.PIPE, stderr=subprocess.STDOUT, text=True, **kw)

def main():
    ap = argparse.ArgumentParser()
    ap.add_argument('--only', nargs='*')
    ap.add_argument('--tier', default='quick')
    ap.add_argument('--props', default=None)
    ap.add_argument('--seed', default='0')
    ap.add_argument('--dir', default='equiv', help="'equiv' (behaviour-preserving refactors) or 'irrelevant' (behaviour changes the property does not constrain)")
    a = ap.parse_args()
    rpath = V / a.dir / 'RESULTS.json'
    results = json.loads(rpath.read_text()) if rpath.is_file() else {}
    for d in sorted((V / a.dir).iterdir()):
        if not (d / 'patch.diff').is_file():
            continue
        if a.only and d.name not in a.only:
            continue
        meta = json.loads((d / 'meta.json').read_text())
        props = a.props.split(',') if a.props else [meta['property']] + meta.get('also_run', [])
        wt = pathlib.Path('/tmp') / ('%swt_%s_%d' % (a.dir[:3], d.name, os.getpid()))
        sh(['git', '-C', '/repo', 'worktree', 'remove', '--force', str(wt)])
        sh(['git', '-C', '/repo', 'worktree', 'add', '--detach', str(wt), 'HEAD'])
        try:
            r = sh(['git', '-C', str(wt), 'apply', str(d / 'patch.diff')])
            if r.returncode != 0:
                results[d.name] = {'error': 'patch does not apply: ' + r.stdout[-300:]}
                print(d.name, 'PATCH FAILED')
                continue
            entry = {'property': meta['property'], 'checks': {}}
            for p in props:
                env = dict(os.environ, CTM_REPO=str(wt), VERIF_SEED=a.seed)
                t0 = time.time()
                r = sh([str(V / 'check'), p, '--tier', a.tier], cwd=V, env=env)
                viol = [l for l in r.stdout.splitlines() if l.startswith('VIOLATION')]
                entry['checks'][p] = {'exit': r.returncode, 'violations': viol[:6],
                                      'wall_s': round(time.time() - t0, 1), 'tier': a.tier}
                print(d.name, p, 'exit', r.returncode, viol[:2])
            entry['quiet'] = all(c['exit'] == 0 and not c['violations'] for c in entry['checks'].values())
            results[d.name] = entry
        finally:
            sh(['git', '-C', '/repo', 'worktree', 'remove', '--force', str(wt)])
            shutil.rmtree(wt, ignore_errors=True)
    rpath.write_text(json.dumps(results, indent=1))
    lines = ['| harmless edit | property | all checks quiet | checks |', '|---|---|---|---|']
    for k, e in sorted(results.items()):
        if 'error' in e:
            lines.append(f'| {k} | ? | error | {e["error"][:60]} |')
            continue
        cs = '; '.join(f'{p}: exit {c["exit"]}' for p, c in e['checks'].items())
        lines.append(f'| {k} | {e["property"]} | {"yes" if e["quiet"] else "NO"} | {cs} |')
    (V / a.dir / 'RESULTS.md').write_text('\n'.join(lines) + '\n')

if __name__ == '__main__':
    main()
