#!/usr/bin/env python3
"""Fill the generated tables of DESIGN.md (obligations per property, seeded results)."""
import json, pathlib, re, sys
V = pathlib.Path(__file__).resolve().parents[1]
sys.path.insert(0, str(V / 'harness'))
from ctmverif import core
lean = core.LeanSide(lambda m: None)
rows = ['| property | theorems (all discharged) | Lean lines model / lemmas / props | last evidence: tier, evaluations, distinct non-trivial |', '|---|---|---|---|']
props = [json.loads(l)['id'] for l in (V / 'properties.jsonl').read_text().splitlines() if l.strip()]
def loc(paths):
    return sum(len(p.read_text().splitlines()) for p in paths)
notes = {}
for pid in props:
    names = lean.theorem_names(pid)
    ev = {}
    f = V / 'evidence' / f'{pid}.json'
    if f.is_file():
        ev = json.loads(f.read_text())
    cov = ev.get('coverage', {})
    src = (V / 'lean' / 'CTM' / 'Props' / f'{pid}.lean').read_text()
    imports = re.findall(r'^import\s+(CTM\.\S+)', src, re.M)
    # transitive closure of CTM imports
    seen = set(); todo = list(imports)
    while todo:
        m = todo.pop()
        if m in seen: continue
        seen.add(m)
        fp = V / 'lean' / (m.replace('.', '/') + '.lean')
        if fp.is_file():
            todo += re.findall(r'^import\s+(CTM\.\S+)', fp.read_text(), re.M)
    model = [V / 'lean' / (m.replace('.', '/') + '.lean') for m in seen if '.Model.' in m or '.Generated.' in m]
    lem = [V / 'lean' / (m.replace('.', '/') + '.lean') for m in seen if '.Lemmas.' in m]
    rows.append('| %s | %d (%d) | %d / %d / %d | %s, %s, %s |' % (
        pid, len(names), cov.get('discharged', 0), loc(model), loc(lem), len(src.splitlines()),
        ev.get('tier', '-'), cov.get('evaluations', '-'), cov.get('distinct_nontrivial', '-')))
srows = ['| seeded change | breaks | what it needs to manifest | caught | with failing input | by |', '|---|---|---|---|---|---|']
res = {}
rp = V / 'seeded' / 'RESULTS.json'
if rp.is_file():
    res = json.loads(rp.read_text())
for d in sorted((V / 'seeded').iterdir()):
    if not (d / 'meta.json').is_file():
        continue
    meta = json.loads((d / 'meta.json').read_text())
    r = res.get(d.name, {})
    if meta.get('superseded_by'):
        srows.append('| %s | %s | (patch no longer applies to /repo HEAD) | superseded by %s | | |' % (d.name, meta.get('property'), meta['superseded_by']))
        continue
    by = ', '.join(p for p, c in r.get('checks', {}).items() if c['exit'] == 1)
    need = str(meta.get('needs_to_manifest', ''))[:160].replace('|', '/').replace('\n', ' ')
    srows.append('| %s | %s | %s | %s | %s | %s |' % (d.name, meta.get('property'), need,
                 'yes' if r.get('caught') else ('NO' if r else 'not run'),
                 'yes' if r.get('caught_with_input') else 'no', by))
p = V / 'DESIGN.md'
s = p.read_text()
def fill(s, tag, lines):
    a = s.index(f'<!-- {tag}-BEGIN -->') + len(f'<!-- {tag}-BEGIN -->')
    b = s.index(f'<!-- {tag}-END -->')
    return s[:a] + '\n' + '\n'.join(lines) + '\n' + s[b:]
erows = ['| harmless edit | property | what was refactored | all checks quiet | checks run |', '|---|---|---|---|---|']
eres = {}
ep = V / 'equiv' / 'RESULTS.json'
if ep.is_file():
    eres = json.loads(ep.read_text())
if (V / 'equiv').is_dir():
    for d in sorted((V / 'equiv').iterdir()):
        if not (d / 'meta.json').is_file():
            continue
        meta = json.loads((d / 'meta.json').read_text())
        r = eres.get(d.name, {})
        cs = '; '.join('%s: exit %d' % (q, c['exit']) for q, c in r.get('checks', {}).items())
        what = str(meta.get('summary', ''))[:170].replace('|', '/').replace('\n', ' ')
        erows.append('| %s | %s | %s | %s | %s |' % (d.name, meta.get('property'), what,
                     ('yes' if r.get('quiet') else 'NO') if r else 'not run', cs))
irows = ['| irrelevant edit | property | what changed observably | all checks quiet | checks run |', '|---|---|---|---|---|']
ires = {}
ip = V / 'irrelevant' / 'RESULTS.json'
if ip.is_file():
    ires = json.loads(ip.read_text())
if (V / 'irrelevant').is_dir():
    for d in sorted((V / 'irrelevant').iterdir()):
        if not (d / 'meta.json').is_file():
            continue
        meta = json.loads((d / 'meta.json').read_text())
        r = ires.get(d.name, {})
        cs = '; '.join('%s: exit %d%s' % (q, c['exit'], ' (tie)' if c['exit'] == 1 and all('no-failing-input-found' in v for v in c['violations']) else '') for q, c in r.get('checks', {}).items())
        what = str(meta.get('summary', ''))[:170].replace('|', '/').replace('\n', ' ')
        irows.append('| %s | %s | %s | %s | %s |' % (d.name, meta.get('property'), what,
                     ('yes' if r.get('quiet') else 'NO') if r else 'not run', cs))
s = fill(s, 'OBLIGATIONS', rows)
s = fill(s, 'SEEDED', srows)
if '<!-- IRRELEVANT-BEGIN -->' in s:
    s = fill(s, 'IRRELEVANT', irows)
if '<!-- EQUIV-BEGIN -->' in s:
    s = fill(s, 'EQUIV', erows)
p.write_text(s)
print('ok', len(rows) - 2, 'properties', len(srows) - 2, 'seeded', len(erows) - 2, 'equiv')
