#!/usr/bin/env python
"""
Observe edit C17_i1: extra informational log lines emitted by
from_specified_markers._run_mapping when a level is dropped and when
the taxonomy is flattened.

usage:  PYTHONPATH=<worktree>/src /venv/bin/python observe.py

Builds a tiny 3-level reference + query, runs the mapper three times
(plain / drop_level='subclass' / flatten=True) and prints every log
line of the extended-result JSON that mentions 'dropped level' or
'flattening taxonomy'.  On the unpatched code nothing is printed for
those (count 0); on the patched code one line per run is printed.
The assignments themselves are printed as a digest to show that they
are not affected.  Always exits 0.
"""
import contextlib
import hashlib
import io
import json
import pathlib
import shutil
import sys
import tempfile
import traceback
import warnings


def build_inputs(tmp):
    import anndata
    import numpy as np
    import pandas as pd
    from cell_type_mapper.diff_exp.precompute_from_anndata import (
        precompute_summary_stats_from_h5ad)

    rng = np.random.default_rng(17)
    n_genes = 24
    genes = [f'g{ii}' for ii in range(n_genes)]
    clusters = [f'cl{ii}' for ii in range(8)]
    cl_to_sub = {c: f'sub{ii//2}' for ii, c in enumerate(clusters)}
    sub_to_class = {f'sub{ii}': f'class{ii//2}' for ii in range(4)}

    profiles = {c: rng.integers(0, 40, n_genes).astype(float)
                for c in clusters}

    def sample(n_per):
        rows = []
        labels = []
        for c in clusters:
            for _ in range(n_per):
                rows.append(rng.poisson(profiles[c] + 1.0))
                labels.append(c)
        return np.array(rows, dtype=float), labels

    x_ref, lab = sample(12)
    obs = pd.DataFrame(
        {'cluster': lab,
         'subclass': [cl_to_sub[c] for c in lab],
         'class': [sub_to_class[cl_to_sub[c]] for c in lab]},
        index=[f'r{ii}' for ii in range(len(lab))])
    var = pd.DataFrame(index=genes)
    ref_path = tmp / 'ref.h5ad'
    anndata.AnnData(X=x_ref, obs=obs, var=var).write_h5ad(ref_path)

    x_q, qlab = sample(3)
    q_path = tmp / 'query.h5ad'
    anndata.AnnData(
        X=x_q,
        obs=pd.DataFrame(index=[f'q{ii}' for ii in range(len(qlab))]),
        var=var).write_h5ad(q_path)

    stats_path = tmp / 'stats.h5'
    precompute_summary_stats_from_h5ad(
        data_path=ref_path,
        column_hierarchy=['class', 'subclass', 'cluster'],
        taxonomy_tree=None,
        output_path=stats_path,
        rows_at_a_time=1000,
        normalization='raw',
        n_processors=1)

    # hand made marker table: every parent gets a handful of genes
    lookup = {'None': genes[:10]}
    for ii in range(2):
        lookup[f'class/class{ii}'] = genes[4+ii:16+ii]
    for ii in range(4):
        lookup[f'subclass/sub{ii}'] = genes[8+ii:22+ii]
    marker_path = tmp / 'markers.json'
    marker_path.write_text(json.dumps(lookup))
    return q_path, stats_path, marker_path


def run(tmp, q_path, stats_path, marker_path, tag, drop_level, flatten):
    # argschema in this sandbox cannot parse configs, so call the
    # function behind FromSpecifiedMarkersRunner.run() directly with
    # a fully populated config (the schema defaults written out)
    from cell_type_mapper.cli.from_specified_markers import run_mapping
    out = tmp / f'out_{tag}.json'
    scratch = tmp / f'scratch_{tag}'
    scratch.mkdir()
    config = {
        'query_path': str(q_path),
        'extended_result_path': str(out),
        'extended_result_dir': None,
        'csv_result_path': None,
        'hdf5_result_path': None,
        'summary_metadata_path': None,
        'log_path': None,
        'obsm_key': None,
        'obsm_clobber': False,
        'cloud_safe': False,
        'map_to_ensembl': False,
        'max_gb': 10,
        'tmp_dir': str(scratch),
        'precomputed_stats': {'path': str(stats_path)},
        'query_markers': {'serialized_lookup': str(marker_path)},
        'drop_level': drop_level,
        'flatten': flatten,
        'type_assignment': {
            'normalization': 'raw',
            'bootstrap_iteration': 10,
            'bootstrap_factor': 0.7,
            'bootstrap_factor_lookup': None,
            'n_runners_up': 2,
            'rng_seed': 1234,
            'n_processors': 1,
            'chunk_size': 1000,
            'min_markers': 1},
    }
    with contextlib.redirect_stdout(io.StringIO()):
        run_mapping(
            config=config,
            output_path=config['extended_result_path'],
            log_path=None,
            hdf5_output_path=None)
    blob = json.loads(out.read_text())
    digest = hashlib.md5(
        json.dumps(
            [{k: (c[k] if k == 'cell_id' else c[k]['assignment'])
              for k in sorted(c)} for c in blob['results']],
            sort_keys=True).encode('utf-8')).hexdigest()
    hits = [m for m in blob['log']
            if 'dropped level' in m or 'flattening taxonomy' in m]
    return hits, digest


def main():
    warnings.simplefilter('ignore')
    tmp = pathlib.Path(tempfile.mkdtemp(prefix='observe_C17_i1_'))
    try:
        import cell_type_mapper
        print('cell_type_mapper imported from', cell_type_mapper.__file__)
        q_path, stats_path, marker_path = build_inputs(tmp)
        for tag, drop, flat in (('plain', None, False),
                                ('drop_subclass', 'subclass', False),
                                ('drop_absent', 'no_such_level', False),
                                ('flatten', None, True)):
            hits, digest = run(
                tmp, q_path, stats_path, marker_path, tag, drop, flat)
            print(f'--- run {tag}: assignment digest {digest}; '
                  f'{len(hits)} drop/flatten log line(s)')
            for h in hits:
                print('    LOG:', h)
    except Exception:
        traceback.print_exc()
    finally:
        shutil.rmtree(tmp, ignore_errors=True)
    sys.exit(0)


if __name__ == '__main__':
    main()
