"""
Shows that TaxonomyTree.drop_level now lists the re-attached
grand-children of each parent in alphabetical order, whereas the
original code listed them in the order induced by the dropped level.
As a consequence the ORDER (not the content) of children(), as_leaves
and leaves_to_compare() of the reduced tree changes.
Run with PYTHONPATH=<worktree>/src (patched) and PYTHONPATH=/repo/src
(original) and compare. Exits 0 always.
"""
import sys


def main():
    try:
        from cell_type_mapper.taxonomy.taxonomy_tree import TaxonomyTree
        data = {
            'hierarchy': ['class', 'subclass', 'cluster'],
            'class': {'A': ['s2', 's1']},
            'subclass': {'s2': ['c_z', 'c_b'], 's1': ['c_y', 'c_a']},
            'cluster': {'c_z': [0], 'c_b': [1], 'c_y': [2], 'c_a': [3]}}
        tree = TaxonomyTree(data=data)
        reduced = tree.drop_level('subclass')
        kids = reduced.children('class', 'A')
        print("children of class:A after drop_level('subclass'):", kids)
        print("as_leaves['class']['A']:", reduced.as_leaves['class']['A'])
        print("leaves_to_compare(('class','A')):",
              reduced.leaves_to_compare(('class', 'A')))
        print("same set of children as before:",
              set(kids) == {'c_z', 'c_b', 'c_y', 'c_a'})
        print("parents(cluster, c_z):", reduced.parents('cluster', 'c_z'))
    except Exception as err:  # never fail
        print("observe.py error:", repr(err))
    sys.exit(0)


if __name__ == "__main__":
    main()
