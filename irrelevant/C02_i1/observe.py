#!/usr/bin/env python
"""
Observe edit C02_i1: which of several children with the SAME number of
bootstrap votes is reported as the assignment (and the order in which
equally-voted runners-up are listed) changed.

Run once with PYTHONPATH=<patched worktree>/src and once against the
unpatched package; the 'assignment' printed for the tied cell differs
('A' after the edit, 'B' before).  Always exits 0.
"""
import sys


def main():
    import numpy as np
    import cell_type_mapper
    from cell_type_mapper.type_assignment.election import choose_node
    print("package:", cell_type_mapper.__file__)

    # three marker genes, two reference leaves that are each their own
    # child type; subsets of size round(2/3*3)=2
    reference = np.array([[0.0, 1.0, 2.0],    # type 'A' (rising)
                          [2.0, 1.0, 0.0]])   # type 'B' (falling)
    # query rises over genes (0,1) -> votes A; falls over (1,2) -> votes B
    query = np.array([[0.0, 1.0, 0.0]])

    for seed in range(200):
        rng = np.random.default_rng(seed)
        # peek at the subsets this seed will produce
        peek = np.random.default_rng(seed)
        subsets = [tuple(int(x) for x in np.sort(peek.choice(np.arange(3), 2, replace=False)))
                   for _ in range(2)]
        if sorted(subsets) != [(0, 1), (1, 2)]:
            continue
        (assignment, prob, corr, runners_up) = choose_node(
            query_gene_data=query,
            reference_gene_data=reference,
            reference_types=['A', 'B'],
            bootstrap_factor=2.0/3.0,
            bootstrap_iteration=2,
            rng=rng,
            n_assignments=2)
        print(f"seed={seed} subsets={subsets}: one vote for A, one for B")
        print("  assignment            :", assignment[0])
        print("  bootstrapping_prob    :", prob[0])
        print("  avg_correlation       :", corr[0])
        print("  runners_up            :",
              [(r[0], bool(r[1]), float(r[2]), float(r[3]))
               for r in runners_up[0]])
        break


if __name__ == "__main__":
    try:
        main()
    except Exception as err:   # always exit 0
        print("observe.py error:", repr(err))
    sys.exit(0)
