"""
Show the observable change of edit C05_i2: the HDF5 layout (chunk shape)
and the root attributes of the intermediate CSR file that
cell_type_mapper.utils.csc_to_csr.csc_to_csr_on_disk writes.

Run as
  PYTHONPATH=<worktree>/src /venv/bin/python observe.py
against the unpatched and the patched tree and compare the output.
Also checks (informationally) that the CSR content is still exact.
Always exits 0.
"""
import pathlib
import sys
import tempfile
import warnings


def main():
    import anndata
    import h5py
    import numpy as np
    import scipy.sparse
    from cell_type_mapper.utils.csc_to_csr import csc_to_csr_on_disk

    rng = np.random.default_rng(5)
    n_rows = 900
    n_cols = 700
    dense = rng.integers(1, 9, (n_rows, n_cols)).astype(np.float32)
    dense[rng.random(dense.shape) < 0.35] = 0.0
    dense[17, :] = 0.0
    dense[:, 3] = 0.0
    n_non_zero = int((dense != 0).sum())
    print('matrix shape', dense.shape, 'stored non-zeros', n_non_zero)

    with tempfile.TemporaryDirectory() as scratch:
        scratch = pathlib.Path(scratch)
        h5ad_path = scratch / 'as_csc.h5ad'
        with warnings.catch_warnings():
            warnings.simplefilter('ignore')
            anndata.AnnData(X=scipy.sparse.csc_matrix(dense)).write_h5ad(
                h5ad_path)
        csr_path = scratch / 'as_csr.h5'
        with h5py.File(h5ad_path, 'r') as src:
            csc_to_csr_on_disk(
                csc_group=src['X'],
                csr_path=csr_path,
                array_shape=dense.shape,
                max_gb=0.01)

        with h5py.File(csr_path, 'r') as src:
            print('datasets in intermediate CSR file:', sorted(src.keys()))
            for k in ('data', 'indices', 'indptr'):
                print(f'    {k}: shape={src[k].shape} dtype={src[k].dtype} '
                      f'chunks={src[k].chunks}')
            print('root attributes of intermediate CSR file:')
            attrs = dict(src.attrs)
            if len(attrs) == 0:
                print('    (none)')
            for k in sorted(attrs):
                print(f'    {k} = {attrs[k]}')
            got = scipy.sparse.csr_matrix(
                (src['data'][()], src['indices'][()], src['indptr'][()]),
                shape=dense.shape).toarray()
        print('CSR content still exact:', bool(np.array_equal(got, dense)))


if __name__ == "__main__":
    try:
        main()
    except Exception as err:  # never fail
        print('observe.py hit an exception:', repr(err))
    sys.exit(0)
