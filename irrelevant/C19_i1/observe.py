"""
Show the observable change of edit C19_i1: the names of the scratch
sub-directories that run_mapping creates inside config['tmp_dir'] while a
mapping run is in progress.

Run once against the unpatched tree and once against the patched tree:

    PYTHONPATH=/repo/src          /venv/bin/python observe.py
    PYTHONPATH=/tmp/irr_C19/src   /venv/bin/python observe.py

unpatched: ['cell_type_mapper_<timestamp>_', 'result_buffer_']
patched:   ['ctm_mapping_results_', 'ctm_mapping_scratch_<timestamp>_']

In both cases the scratch directory is empty again after run_mapping returns.
Always exits 0.
"""
import os
import pathlib
import re
import sys
import tempfile
import traceback


def main():
    import anndata
    import numpy as np
    import pandas as pd
    import cell_type_mapper.cli.from_specified_markers as fsm

    print("module under observation:", fsm.__file__)

    top = pathlib.Path(tempfile.mkdtemp(prefix='observe_C19_i1_'))
    scratch = top / 'scratch'
    scratch.mkdir()
    out_dir = top / 'out'
    out_dir.mkdir()

    query_path = top / 'query.h5ad'
    a = anndata.AnnData(
        X=np.ones((3, 2), dtype=np.float32),
        obs=pd.DataFrame(index=['c0', 'c1', 'c2']),
        var=pd.DataFrame(index=['g0', 'g1']))
    a.write_h5ad(query_path)

    seen = []

    def stub(config, tmp_dir, tmp_result_dir, log):
        # record what the scratch dir looks like while a run is in flight
        seen.extend(sorted(os.listdir(config['tmp_dir'])))
        return {'results': []}

    fsm._run_mapping = stub

    config = {
        'tmp_dir': str(scratch),
        'extended_result_dir': None,
        'cloud_safe': False,
        'summary_metadata_path': None,
        'query_path': str(query_path),
        'map_to_ensembl': False,
    }
    fsm.run_mapping(
        config=config,
        output_path=str(out_dir / 'out.json'),
        log_path=None,
        hdf5_output_path=None)

    # mask the random / time dependent part of the names
    # (mkdtemp appends exactly 8 random characters)
    masked = [re.sub(r'\d{8,}', '<timestamp>', n[:-8]) for n in seen]
    print("scratch sub-directories during the run:", masked)
    print("scratch contents after the run       :",
          sorted(os.listdir(scratch)))
    print("output dir contents after the run    :",
          sorted(os.listdir(out_dir)))

    import shutil
    shutil.rmtree(top, ignore_errors=True)


if __name__ == "__main__":
    try:
        main()
    except Exception:
        traceback.print_exc()
    sys.exit(0)
