"""
Show the observable behaviour touched by edit C11_i2.

Run once against the unpatched tree and once against the patched tree, e.g.

    PYTHONPATH=/repo/src        /venv/bin/python observe.py
    PYTHONPATH=/tmp/irr_C11/src /venv/bin/python observe.py

It prints
 (a) the default of create_p_value_mask_file(n_per=...),
 (b) the names of the scratch directory / per-chunk scratch files that
     create_p_value_mask_file makes (and that they are removed again),
 (c) the HDF5 storage layout (chunk shape, gzip level) of the
     'indices'/'data' datasets of the p-value mask file,
 (d) a digest of the *contents* of the mask file and of the marker
     tables derived from it -- these are the SAME before and after.
Always exits 0.
"""
import hashlib
import inspect
import json
import pathlib
import re
import shutil
import sys
import tempfile
import traceback

N_LEAVES = 150   # -> 11175 leaf pairs (more than either default n_per)
N_GENES = 64


def make_stats_file(path, rng):
    import h5py
    import numpy as np
    clusters = [f'c{ii:03d}' for ii in range(N_LEAVES)]
    n_cells = rng.integers(1, 30, N_LEAVES)
    n_cells[:4] = [1, 2, 2, 3]
    tree = {'hierarchy': ['class', 'cluster'],
            'class': {'A': clusters[:N_LEAVES//2],
                      'B': clusters[N_LEAVES//2:]},
            'cluster': dict()}
    r0 = 0
    for c, n in zip(clusters, n_cells):
        tree['cluster'][c] = list(range(r0, r0+int(n)))
        r0 += int(n)
    shape = (N_LEAVES, N_GENES)
    summ = np.zeros(shape)
    sumsq = np.zeros(shape)
    ge1 = np.zeros(shape, dtype=int)
    gt0 = np.zeros(shape, dtype=int)
    gt1 = np.zeros(shape, dtype=int)
    for ic, n in enumerate(n_cells):
        scale = rng.choice([0.5, 3.0, 9.0], N_GENES)
        data = scale*(0.8+0.4*rng.random((n, N_GENES)))
        data[:, rng.integers(0, N_GENES, 6)] = 0.0
        summ[ic] = data.sum(axis=0)
        sumsq[ic] = (data**2).sum(axis=0)
        ge1[ic] = (data >= 1).sum(axis=0)
        gt1[ic] = (data > 1).sum(axis=0)
        gt0[ic] = (data > 0).sum(axis=0)
    with h5py.File(path, 'w') as dst:
        dst.create_dataset('n_cells', data=n_cells)
        dst.create_dataset('sum', data=summ)
        dst.create_dataset('sumsq', data=sumsq)
        dst.create_dataset('ge1', data=ge1)
        dst.create_dataset('gt0', data=gt0)
        dst.create_dataset('gt1', data=gt1)
        dst.create_dataset(
            'col_names',
            data=json.dumps([f'g{ii}' for ii in range(N_GENES)]).encode())
        dst.create_dataset(
            'cluster_to_row',
            data=json.dumps({c: ii for ii, c in enumerate(clusters)}).encode())
        dst.create_dataset(
            'taxonomy_tree', data=json.dumps(tree).encode())


def strip_salt(name):
    """remove the random part mkstemp/mkdtemp put in a name"""
    return re.sub(r'[a-z0-9_]{8}(\.h5)?$', r'*\1', name)


def main():
    import h5py
    import numpy as np
    import cell_type_mapper
    import cell_type_mapper.diff_exp.p_value_mask as p_value_mask
    from cell_type_mapper.diff_exp.p_value_markers import (
        find_markers_for_all_taxonomy_pairs_from_p_mask)

    print('package loaded from',
          pathlib.Path(cell_type_mapper.__file__).parent)

    sig = inspect.signature(p_value_mask.create_p_value_mask_file)
    print('(a) default n_per of create_p_value_mask_file:',
          sig.parameters['n_per'].default)

    scratch = pathlib.Path(tempfile.mkdtemp(prefix='observe_C11_i2_'))
    stats_path = scratch / 'stats.h5'
    make_stats_file(stats_path, np.random.default_rng(221177))
    work = scratch / 'work'
    work.mkdir()
    mask_path = scratch / 'mask.h5'

    made_dirs = []
    made_files = []
    orig_mkdtemp = tempfile.mkdtemp
    orig_mkstemp_clean = p_value_mask.mkstemp_clean

    def spy_mkdtemp(*args, **kwargs):
        out = orig_mkdtemp(*args, **kwargs)
        made_dirs.append(pathlib.Path(out))
        return out

    def spy_mkstemp_clean(*args, **kwargs):
        out = orig_mkstemp_clean(*args, **kwargs)
        made_files.append(pathlib.Path(out))
        return out

    tempfile.mkdtemp = spy_mkdtemp
    p_value_mask.mkstemp_clean = spy_mkstemp_clean
    try:
        # all defaults, in particular n_per
        p_value_mask.create_p_value_mask_file(
            precomputed_stats_path=stats_path,
            dst_path=mask_path,
            n_processors=2,
            tmp_dir=work)
    finally:
        tempfile.mkdtemp = orig_mkdtemp
        p_value_mask.mkstemp_clean = orig_mkstemp_clean

    print('(b) scratch directory :',
          [strip_salt(p.name) for p in made_dirs if p.parent == work],
          '-> removed afterwards:',
          all(not p.exists() for p in made_dirs))
    print('    per-chunk scratch files:',
          [strip_salt(p.name) for p in made_files])
    print('    tmp_dir empty afterwards:', len(list(work.iterdir())) == 0)

    hasher = hashlib.md5()
    with h5py.File(mask_path, 'r') as src:
        print('(c) storage layout of the mask file')
        for k in ('indices', 'data', 'indptr'):
            ds = src[k]
            print(f'    {k}: shape={ds.shape} dtype={ds.dtype} '
                  f'chunks={ds.chunks} compression={ds.compression} '
                  f'compression_opts={ds.compression_opts}')
            hasher.update(k.encode())
            hasher.update(str(ds.dtype).encode())
            hasher.update(ds[()].tobytes())
        for k in ('gene_names', 'pair_to_idx'):
            hasher.update(src[k][()])
        print('    keys:', sorted(src.keys()))
    print('(d) md5 of mask file CONTENTS (values+dtypes):',
          hasher.hexdigest())
    print('    size of mask file in bytes:', mask_path.stat().st_size)

    marker_path = scratch / 'markers.h5'
    find_markers_for_all_taxonomy_pairs_from_p_mask(
        precomputed_stats_path=stats_path,
        p_value_mask_path=mask_path,
        output_path=marker_path,
        n_processors=2,
        tmp_dir=work,
        max_gb=1,
        n_valid=5)
    hasher = hashlib.md5()
    with h5py.File(marker_path, 'r') as src:
        for grp in ('sparse_by_pair', 'sparse_by_gene'):
            for k in sorted(src[grp].keys()):
                hasher.update(k.encode())
                hasher.update(src[grp][k][()].astype(np.int64).tobytes())
    print('    md5 of marker tables derived from the mask:',
          hasher.hexdigest())

    shutil.rmtree(scratch, ignore_errors=True)


if __name__ == "__main__":
    try:
        main()
    except Exception:
        traceback.print_exc()
    sys.exit(0)
