"""
Show the observable change of edit C05_i1: the name of the scratch
directory / scratch file used for the CSC->CSR rewrite and the wording
of the messages emitted by AnnDataRowIterator._initialize_as_csc.

Run as
  PYTHONPATH=<worktree>/src /venv/bin/python observe.py
against the unpatched and the patched tree and compare the output.
Also checks (informationally) that the rows delivered are still exact.
Always exits 0.
"""
import contextlib
import io
import pathlib
import sys
import tempfile
import warnings


def main():
    import anndata
    import numpy as np
    import scipy.sparse
    from cell_type_mapper.anndata_iterator.anndata_iterator import (
        AnnDataRowIterator)

    rng = np.random.default_rng(11)
    dense = rng.integers(0, 5, (37, 13)).astype(np.float32)
    dense[rng.random(dense.shape) < 0.6] = 0.0
    dense[4, :] = 0.0
    dense[:, 2] = 0.0

    with tempfile.TemporaryDirectory() as scratch:
        scratch = pathlib.Path(scratch)
        h5ad_path = scratch / 'query_file.h5ad'
        with warnings.catch_warnings():
            warnings.simplefilter('ignore')
            anndata.AnnData(X=scipy.sparse.csc_matrix(dense)).write_h5ad(
                h5ad_path)
        work = scratch / 'work'
        work.mkdir()

        buf = io.StringIO()
        with contextlib.redirect_stdout(buf):
            iterator = AnnDataRowIterator(
                h5ad_path=h5ad_path,
                row_chunk_size=5,
                tmp_dir=work,
                log=None)

        print('messages printed during construction:')
        for line in buf.getvalue().splitlines():
            print('   ', line)

        print('scratch entries under tmp_dir:')
        for p in sorted(work.rglob('*')):
            name = str(p.relative_to(work))
            print('   ', name)
        # strip the 8 random characters that mkdtemp/mkstemp insert
        print('scratch dir prefix :',
              pathlib.Path(iterator.tmp_dir).name[:-8])
        print('scratch file prefix:',
              pathlib.Path(iterator.tmp_path).stem[:-8])

        rows = []
        expected_r0 = 0
        ok = True
        for chunk, r0, r1 in iterator:
            ok = ok and (r0 == expected_r0)
            expected_r0 = r1
            rows.append(chunk)
        got = np.vstack(rows)
        ok = ok and expected_r0 == dense.shape[0]
        ok = ok and np.array_equal(got, dense)
        print('rows still exact and in order:', ok)

        del iterator


if __name__ == "__main__":
    try:
        main()
    except Exception as err:  # never fail
        print('observe.py hit an exception:', repr(err))
    sys.exit(0)
