"""
Shows the changed wording of three RuntimeError messages raised by
cell_type_mapper.taxonomy.utils.validate_taxonomy_tree.
Run with PYTHONPATH=<worktree>/src (patched) and PYTHONPATH=/repo/src
(original) and compare the printed messages. Exits 0 always.
"""
import sys


def show(label, tree):
    from cell_type_mapper.taxonomy.utils import validate_taxonomy_tree
    try:
        validate_taxonomy_tree(tree)
        print(f"{label}: ACCEPTED (unexpected)")
    except Exception as err:
        print(f"{label}: {type(err).__name__}: {str(err)!r}")


def main():
    try:
        # node 'c' has two parents
        show("two_parents", {
            'hierarchy': ['a', 'b'],
            'a': {'p1': ['c', 'd'], 'p2': ['c']},
            'b': {'c': [0], 'd': [1]}})
        # parent p2 has no children
        show("no_children", {
            'hierarchy': ['a', 'b'],
            'a': {'p1': ['c', 'd'], 'p2': []},
            'b': {'c': [0], 'd': [1]}})
        # parent p1 lists 'c' twice
        show("repeated_child", {
            'hierarchy': ['a', 'b'],
            'a': {'p1': ['c', 'd', 'c']},
            'b': {'c': [0], 'd': [1]}})
        # a valid tree is still accepted
        from cell_type_mapper.taxonomy.utils import validate_taxonomy_tree
        validate_taxonomy_tree({
            'hierarchy': ['a', 'b'],
            'a': {'p1': ['c', 'd']},
            'b': {'c': [0], 'd': [1]}})
        print("valid_tree: accepted")
    except Exception as err:  # never fail
        print("observe.py error:", repr(err))
    sys.exit(0)


if __name__ == "__main__":
    main()
