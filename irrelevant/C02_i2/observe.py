#!/usr/bin/env python
"""
Observe edit C02_i2: extra informational log lines, a different name for
the scratch directory / per-chunk scratch files of the CPU type assignment,
and a more detailed RuntimeError message when query and reference marker
genes disagree.  The assignments themselves are printed too (unchanged).

Run once with PYTHONPATH=<patched worktree>/src and once against the
unpatched package and compare the output.  Always exits 0.
"""
import sys


def build_inputs(tmp_dir):
    import json
    import anndata
    import h5py
    import numpy as np
    import pandas as pd

    n_genes = 40
    gene_names = [f'gene_{ii}' for ii in range(n_genes)]
    taxonomy = {
        'hierarchy': ['class', 'cluster'],
        'class': {'A': ['c1', 'c2'], 'B': ['c3', 'c4', 'c5']},
        'cluster': {f'c{ii}': [ii, ii+10] for ii in range(1, 6)}}
    clusters = list(taxonomy['cluster'].keys())
    tt = np.linspace(0, 1, n_genes)
    data = np.array([1.0+np.sin(2.0*np.pi*tt*(ii+1)/3.0)
                     for ii in range(len(clusters))])

    precompute_path = str(tmp_dir / 'precompute.h5')
    with h5py.File(precompute_path, 'w') as dst:
        dst.create_dataset(
            'cluster_to_row',
            data=json.dumps(
                {c: ii for ii, c in enumerate(clusters)}).encode('utf-8'))
        dst.create_dataset(
            'col_names', data=json.dumps(gene_names).encode('utf-8'))
        dst.create_dataset('n_cells', data=np.ones(len(clusters), dtype=int))
        dst.create_dataset('sum', data=data)
        for k in ('gt1', 'gt0', 'ge1', 'sumsq'):
            dst.create_dataset(
                k, data=np.zeros(data.shape, dtype=int))

    query_path = str(tmp_dir / 'query.h5ad')
    obs = pd.DataFrame(
        [{'cell_id': c} for c in clusters]).set_index('cell_id')
    var = pd.DataFrame(
        [{'gene_name': g} for g in gene_names]).set_index('gene_name')
    anndata.AnnData(X=data, obs=obs, var=var).write_h5ad(query_path)

    marker_path = str(tmp_dir / 'markers.h5')
    rng = np.random.default_rng(2231)
    all_markers = set()
    with h5py.File(marker_path, 'w') as dst:
        for grp in ('None', 'class/A', 'class/B'):
            chosen = np.sort(rng.choice(np.arange(n_genes), 9, replace=False))
            dst.create_dataset(f'{grp}/reference', data=chosen)
            dst.create_dataset(f'{grp}/query', data=chosen)
            all_markers = all_markers.union(set(chosen))
        all_markers = np.sort(np.array(list(all_markers)))
        dst.create_dataset('all_query_markers', data=all_markers)
        dst.create_dataset('all_reference_markers', data=all_markers)
        names = json.dumps(gene_names).encode('utf-8')
        dst.create_dataset('query_gene_names', data=names)
        dst.create_dataset('reference_gene_names', data=names)

    return taxonomy, precompute_path, query_path, marker_path


def main():
    import pathlib
    import shutil
    import tempfile
    import h5py
    import numpy as np
    import cell_type_mapper
    import cell_type_mapper.type_assignment.election as election
    from cell_type_mapper.cli.cli_log import CommandLog
    from cell_type_mapper.taxonomy.taxonomy_tree import TaxonomyTree
    from cell_type_mapper.type_assignment.matching import (
        assemble_query_data, get_leaf_means)
    from cell_type_mapper.cell_by_gene.cell_by_gene import CellByGeneMatrix

    print("package:", cell_type_mapper.__file__)
    tmp_dir = pathlib.Path(tempfile.mkdtemp(prefix='observe_C02_i2_'))
    try:
        (taxonomy,
         precompute_path,
         query_path,
         marker_path) = build_inputs(tmp_dir)
        tree = TaxonomyTree(data=taxonomy)
        scratch = tmp_dir / 'scratch'
        scratch.mkdir()

        # report what is in the scratch buffer just before it is removed
        orig_clean_up = election._clean_up

        def spy_clean_up(target):
            target = pathlib.Path(target)
            print("SCRATCH DIR NAME :", target.name.split('_')[:-1])
            print("SCRATCH FILES    :",
                  sorted(p.name for p in target.iterdir()))
            orig_clean_up(target)
            print("SCRATCH REMOVED  :", not target.exists())
        election._clean_up = spy_clean_up

        log = CommandLog()
        factor = {'None': 0.7, 'class': 0.7, 'cluster': 0.7}
        result = election.run_type_assignment_on_h5ad_cpu(
            query_h5ad_path=query_path,
            precomputed_stats_path=precompute_path,
            marker_gene_cache_path=marker_path,
            taxonomy_tree=tree,
            n_processors=2,
            chunk_size=3,
            bootstrap_factor_lookup=factor,
            bootstrap_iteration=20,
            rng=np.random.default_rng(5513),
            n_assignments=3,
            normalization='log2CPM',
            tmp_dir=None,
            log=log,
            results_output_path=str(scratch))
        print("LOG LINES:")
        for line in log.log:
            print("   ", line.split(' == ', 1)[1])
        print("ASSIGNMENTS (unchanged by the edit):")
        for cell in result:
            print("   ", cell['cell_id'],
                  cell['class']['assignment'],
                  cell['class']['bootstrapping_probability'],
                  cell['cluster']['assignment'],
                  cell['cluster']['bootstrapping_probability'],
                  cell['cluster']['runner_up_assignment'])

        # error message on a marker table whose query and reference
        # markers disagree
        with h5py.File(marker_path, 'a') as dst:
            del dst['class/B/query']
            dst.create_dataset('class/B/query', data=np.array([0, 1, 2]))
        leaf_means = get_leaf_means(
            taxonomy_tree=tree,
            precompute_path=precompute_path,
            for_marker_selection=False)
        query = CellByGeneMatrix(
            data=np.ones((2, len(leaf_means.gene_identifiers))),
            gene_identifiers=leaf_means.gene_identifiers,
            normalization='log2CPM')
        try:
            assemble_query_data(
                full_query_data=query,
                mean_profile_matrix=leaf_means,
                taxonomy_tree=tree,
                marker_cache_path=marker_path,
                parent_node=('class', 'B'))
        except Exception as err:
            print("ERROR ON MARKER MISMATCH:", type(err).__name__, '--', err)
    finally:
        shutil.rmtree(tmp_dir, ignore_errors=True)


if __name__ == "__main__":
    try:
        main()
    except Exception as err:   # always exit 0
        import traceback
        traceback.print_exc()
        print("observe.py error:", repr(err))
    sys.exit(0)
