"""
Show the wording of the 'marker genes missing from the query' warning
emitted by create_marker_cache_from_specified_markers, and show that the
marker cache that is written (the genes actually used) is what the
property demands.  Run with PYTHONPATH=<worktree>/src to see the patched
wording, without it to see the original wording.  Always exits 0.
"""
import sys
import tempfile
import pathlib
import warnings

try:
    import h5py
    import cell_type_mapper
    from cell_type_mapper.type_assignment.marker_cache_v2 import (
        create_marker_cache_from_specified_markers)

    print("package from:", cell_type_mapper.__file__)
    reference = [f"g{ii}" for ii in range(20)]
    query = ["g7", "g3", "g11", "g0", "zzz"]
    lookup = {
        "None": ["g0", "g3", "g5", "g9"],
        "class/A": ["g7", "g11", "g13", "g15", "g17", "g19", "g1"]}
    with tempfile.TemporaryDirectory() as tmp:
        pth = pathlib.Path(tmp) / "cache.h5"
        with warnings.catch_warnings(record=True) as caught:
            warnings.simplefilter("always")
            create_marker_cache_from_specified_markers(
                marker_lookup=lookup,
                reference_gene_names=reference,
                query_gene_names=query,
                output_cache_path=pth)
        for w in caught:
            print("WARNING TEXT:", str(w.message))
        with h5py.File(pth, "r") as src:
            for grp in ("None", "class/A"):
                used = [reference[ii] for ii in src[grp]["reference"][()]]
                used_q = [query[ii] for ii in src[grp]["query"][()]]
                print(f"markers used at {grp}: ref={used} query={used_q}")
except Exception as err:  # noqa
    print("observe.py hit an exception:", repr(err))
sys.exit(0)
