"""Show the wording of the error raised by winnow_process_list /
winnow_process_dict when a worker exits non-zero.

Run against the original and the patched tree, e.g.
  PYTHONPATH=/repo/src         python observe.py
  PYTHONPATH=<patched>/src     python observe.py
Original : 'One of the processes exited with code 3'
           'One of the processes (key=k0) exited with code 3'
Patched  : 'One of the processes (name=..., pid=...) terminated abnormally; exit code 3'
           'One of the processes (key=k0; name=..., pid=...) terminated abnormally; exit code 3'
Always exits 0.
"""
import multiprocessing
import os
import sys


def _bad(code):
    os._exit(code)


def main():
    try:
        from cell_type_mapper.utils.multiprocessing_utils import (
            winnow_process_list, winnow_process_dict)
        p = multiprocessing.Process(target=_bad, args=(3,))
        p.start()
        p.join()
        try:
            winnow_process_list([p])
            print("list: NO ERROR RAISED")
        except Exception as err:
            print(f"list: {type(err).__name__}: {err}")
            print("list: original wording?",
                  str(err) == "One of the processes exited with code 3")

        p = multiprocessing.Process(target=_bad, args=(3,))
        p.start()
        p.join()
        try:
            winnow_process_dict({'k0': p})
            print("dict: NO ERROR RAISED")
        except Exception as err:
            print(f"dict: {type(err).__name__}: {err}")
            print("dict: original wording?",
                  str(err) ==
                  "One of the processes (key=k0) exited with code 3")
    except Exception as err:   # never fail
        print("observe.py problem:", repr(err))
    sys.exit(0)


if __name__ == "__main__":
    main()
