"""
Show that run_type_assignment_on_h5ad_cpu now emits one extra informational
log line right after the leaf mean profiles have been read
("Loaded mean expression profiles of ...").  A tiny hand-made statistics
file / marker cache / centroid query is mapped; the script prints every log
line and the assignment of the centroid queries (which is unchanged:
probability 1, correlation 1).  Run with PYTHONPATH=<worktree>/src to see
the patched behaviour, without to see the original.  Always exits 0.
"""
import json
import pathlib
import sys
import tempfile
import warnings


def main():
    import anndata
    import h5py
    import numpy as np
    import pandas as pd

    from cell_type_mapper.cli.cli_log import CommandLog
    from cell_type_mapper.taxonomy.taxonomy_tree import TaxonomyTree
    from cell_type_mapper.type_assignment.marker_cache_v2 import (
        write_query_markers_to_h5)
    from cell_type_mapper.type_assignment.election import (
        run_type_assignment_on_h5ad_cpu)

    rng = np.random.default_rng(18)
    tree = TaxonomyTree(data={
        'hierarchy': ['class', 'cluster'],
        'class': {'A': ['c0', 'c1'], 'B': ['c2', 'c3']},
        'cluster': {'c0': [0, 1], 'c1': [2, 3], 'c2': [4, 5], 'c3': [6, 7]}})
    genes = [f'g{ii}' for ii in range(12)]
    leaves = ['c0', 'c1', 'c2', 'c3']
    n_cells = np.array([2, 2, 2, 2])
    means = rng.random((4, 12)) * 5.0
    sums = means * n_cells[:, None]

    with tempfile.TemporaryDirectory() as tmp:
        tmp = pathlib.Path(tmp)
        stats_path = tmp / 'stats.h5'
        with h5py.File(stats_path, 'w') as dst:
            dst.create_dataset(
                'col_names', data=json.dumps(genes).encode('utf-8'))
            dst.create_dataset(
                'cluster_to_row',
                data=json.dumps(
                    {n: ii for ii, n in enumerate(leaves)}).encode('utf-8'))
            dst.create_dataset('n_cells', data=n_cells)
            dst.create_dataset('sum', data=sums)

        marker_path = tmp / 'markers.h5'
        write_query_markers_to_h5(
            marker_lookup={'None': genes[:8],
                           'class/A': genes[2:10],
                           'class/B': genes[4:12]},
            reference_gene_names=genes,
            query_gene_names=genes,
            output_cache_path=marker_path)

        query_path = tmp / 'query.h5ad'
        anndata.AnnData(
            X=means,
            obs=pd.DataFrame(
                {'cell': [f'q_{n}' for n in leaves]}).set_index('cell'),
            var=pd.DataFrame({'gene': genes}).set_index('gene')
        ).write_h5ad(query_path)

        log = CommandLog()
        result = run_type_assignment_on_h5ad_cpu(
            query_h5ad_path=query_path,
            precomputed_stats_path=stats_path,
            marker_gene_cache_path=marker_path,
            taxonomy_tree=tree,
            n_processors=1,
            chunk_size=10,
            bootstrap_factor_lookup={'None': 0.5, 'class': 0.5,
                                     'cluster': 0.5},
            bootstrap_iteration=20,
            rng=np.random.default_rng(5),
            n_assignments=2,
            normalization='log2CPM',
            tmp_dir=tmp,
            log=log)

    print('==== log lines recorded by CommandLog ====')
    for line in log.log:
        tag = '   <-- NEW' if 'Loaded mean expression profiles' in line else ''
        print(line + tag)
    print('n_log_lines =', len(log.log))
    print('==== assignments of the centroid queries (unchanged) ====')
    for cell in sorted(result, key=lambda c: c['cell_id']):
        print(cell['cell_id'],
              {lv: (cell[lv]['assignment'],
                    float(cell[lv]['bootstrapping_probability']),
                    round(float(cell[lv]['avg_correlation']), 6))
               for lv in ('class', 'cluster')})


try:
    with warnings.catch_warnings():
        warnings.simplefilter('ignore')
        main()
except Exception as err:  # never fail
    import traceback
    traceback.print_exc()
    print('observe.py could not run:', repr(err))
sys.exit(0)
