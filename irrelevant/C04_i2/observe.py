#!/usr/bin/env python
"""
Show the observable change of edit C04_i2 (reference-statistics stage):
 * names of the per-worker partial-sum scratch files
   (original 'precomputation_buffer_*.h5', patched
   'partial_stats_worker000_*.h5', 'partial_stats_worker001_*.h5', ...)
 * HDF5 storage of the datasets inside them (original: contiguous,
   uncompressed; patched: chunked + gzip)
 * wording of the progress line each worker prints
   (original 'finally process <pid> tot ...', patched
   'precompute worker <pid> finished N chunks (M cells) in ...')
and that the merged statistics file is byte-for-byte the same content
(sha256 over all datasets is printed; it is identical before/after).

Run once with PYTHONPATH=<original>/src and once with
PYTHONPATH=<patched>/src and compare the output.
"""
import sys


def main():
    import hashlib
    import pathlib
    import shutil
    import tempfile
    import anndata
    import h5py
    import numpy as np
    import pandas as pd
    import cell_type_mapper.diff_exp.precompute_from_anndata as mod

    print("module:", mod.__file__, flush=True)

    tmp = pathlib.Path(tempfile.mkdtemp(prefix='observe_C04_i2_'))
    try:
        rng = np.random.default_rng(7)
        n_cells, n_genes = 60, 9
        x = rng.integers(0, 20, (n_cells, n_genes)).astype(float)
        obs = pd.DataFrame(
            {'junk': np.arange(n_cells)},
            index=[f'cell_{ii}' for ii in range(n_cells)])
        var = pd.DataFrame(
            {'junk': np.arange(n_genes)},
            index=[f'gene_{ii}' for ii in range(n_genes)])
        h5ad_path = tmp / 'ref.h5ad'
        anndata.AnnData(X=x, obs=obs, var=var).write_h5ad(h5ad_path)

        cell_to_cluster = {f'cell_{ii}': f'cl_{ii % 4}'
                           for ii in range(n_cells)}
        cluster_to_row = {f'cl_{ii}': ii for ii in range(4)}
        scratch = tmp / 'scratch'
        scratch.mkdir()
        out_path = tmp / 'stats.h5'

        # the private function does not clean tmp_dir (its public
        # wrapper does), so the scratch files can be inspected
        mod._precompute_summary_stats_from_h5ad_and_lookup(
            data_path_list=[h5ad_path],
            cell_name_to_cluster_name=cell_to_cluster,
            cluster_to_output_row=cluster_to_row,
            output_path=out_path,
            rows_at_a_time=10,
            normalization='raw',
            tmp_dir=scratch,
            n_processors=3)
        sys.stdout.flush()

        for pth in sorted(scratch.iterdir()):
            with h5py.File(pth, 'r') as src:
                storage = {k: (src[k].chunks, src[k].compression)
                           for k in sorted(src.keys())}
            # strip the random part that mkstemp inserts
            print("scratch file:", pth.name[:-11] + '<random>.h5',
                  "sum(chunks, compression):", storage['sum'])

        hasher = hashlib.sha256()
        with h5py.File(out_path, 'r') as src:
            for k in sorted(src.keys()):
                hasher.update(k.encode('utf-8'))
                hasher.update(np.ascontiguousarray(src[k][()]).tobytes())
        print("sha256 of merged statistics (unchanged by the edit):",
              hasher.hexdigest())
    finally:
        shutil.rmtree(tmp, ignore_errors=True)


if __name__ == "__main__":
    try:
        main()
    except Exception as err:   # always exit 0
        print("observe.py failed:", repr(err))
    sys.exit(0)
