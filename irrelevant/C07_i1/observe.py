#!/usr/bin/env python
"""
Show that edit C07_i1 changes observable behaviour (error-message wording)
without changing WHEN errors are raised or their type.

usage: observe.py [patched_src_dir]
If patched_src_dir is not given, a pristine copy of /repo HEAD is exported to
a temp dir and patch.diff (next to this file) is applied to it.
Runs the same probe against the original and the patched source tree and
prints both outputs. Always exits 0.
"""
import os
import pathlib
import subprocess
import sys
import tempfile

HERE = pathlib.Path(__file__).resolve().parent
PY = '/venv/bin/python'

PROBE = r'''
import tempfile, pathlib, warnings
warnings.simplefilter('ignore')
import numpy as np, pandas as pd, anndata
from cell_type_mapper.type_assignment.election_runner import (
    run_type_assignment_on_h5ad)
from cell_type_mapper.cell_by_gene.cell_by_gene import CellByGeneMatrix

with tempfile.TemporaryDirectory() as d:
    p = str(pathlib.Path(d) / 'neg.h5ad')
    x = np.ones((3, 4), dtype=np.float32)
    x[1, 2] = -2.5
    a = anndata.AnnData(
        X=x,
        obs=pd.DataFrame(index=[f'c{i}' for i in range(3)]),
        var=pd.DataFrame(index=[f'g{i}' for i in range(4)]))
    a.write_h5ad(p)
    try:
        run_type_assignment_on_h5ad(
            query_h5ad_path=p,
            precomputed_stats_path=None,
            marker_gene_cache_path=None,
            taxonomy_tree=None,
            n_processors=1,
            chunk_size=10,
            bootstrap_factor_lookup=None,
            bootstrap_iteration=1,
            rng=np.random.default_rng(1),
            normalization='raw')
        print('NEGATIVE RAW: no error (unexpected)')
    except Exception as e:
        print('NEGATIVE RAW ->', type(e).__name__, ':', e)

m = CellByGeneMatrix(
    data=np.ones((2, 3)), gene_identifiers=['a', 'b', 'c'],
    normalization='raw')
m.downsample_genes_in_place(['a', 'c'])
try:
    m.to_log2CPM_in_place()
    print('DOWNSAMPLED GUARD: no error (unexpected)')
except Exception as e:
    print('DOWNSAMPLED GUARD ->', type(e).__name__, ':', e)
'''


def run(src):
    env = dict(os.environ)
    env['PYTHONPATH'] = str(src)
    r = subprocess.run([PY, '-c', PROBE], env=env, capture_output=True,
                       text=True)
    return r.stdout + (('STDERR: ' + r.stderr[-2000:]) if r.returncode else '')


def main():
    try:
        with tempfile.TemporaryDirectory() as tmp:
            if len(sys.argv) > 1:
                patched = pathlib.Path(sys.argv[1])
            else:
                root = pathlib.Path(tmp) / 'patched'
                root.mkdir()
                ar = subprocess.run(
                    ['git', '-C', '/repo', 'archive', 'HEAD', 'src'],
                    capture_output=True, check=True)
                subprocess.run(['tar', '-x', '-C', str(root)],
                               input=ar.stdout, check=True)
                subprocess.run(
                    ['git', 'apply', str(HERE / 'patch.diff')],
                    cwd=root, check=True)
                patched = root / 'src'
            orig = pathlib.Path(tmp) / 'orig'
            orig.mkdir()
            ar = subprocess.run(
                ['git', '-C', '/repo', 'archive', 'HEAD', 'src'],
                capture_output=True, check=True)
            subprocess.run(['tar', '-x', '-C', str(orig)],
                           input=ar.stdout, check=True)
            o = run(orig / 'src')
            n = run(patched)
            print('=== ORIGINAL ===')
            print(o)
            print('=== PATCHED ===')
            print(n)
            print('BEHAVIOUR CHANGED:', o != n)
    except Exception as e:  # always exit 0
        print('observe.py failed:', repr(e))
    sys.exit(0)


if __name__ == '__main__':
    main()
