"""
Show the content of the separate log file written by
CommandLog.write_log(..., cloud_safe=True) in whatever cell_type_mapper
is first on PYTHONPATH.

  PYTHONPATH=<tree>/src /venv/bin/python observe.py

At HEAD the file holds exactly the (sanitised) log messages.
With the patch it ends with one extra trailer line
    === END OF LOG: <n> messages written <t> seconds after start (cloud_safe=True) ===
(the 'log' embedded in the JSON/HDF5 output is unchanged).
Always exits 0.
"""
import pathlib
import shutil
import sys
import tempfile


def main():
    try:
        from cell_type_mapper.cli.cli_log import CommandLog
        root = pathlib.Path(tempfile.mkdtemp(prefix='observe_C20_i2_'))
        try:
            existing = root / 'some_input.h5ad'
            existing.write_text('x')
            log = CommandLog()
            log.info("first message")
            log.info(f"reading {existing}")
            log_path = root / 'run.log'
            log.write_log(log_path, cloud_safe=True)
            lines = log_path.read_text().splitlines()
            print('---- in-memory log: %d messages' % len(log.log))
            print('---- log file: %d lines' % len(lines))
            for line in lines:
                print(line)
            print('---- trailer present:',
                  len(lines) > 0 and lines[-1].startswith('=== END OF LOG'))
            print('---- absolute scratch path leaked into file:',
                  str(root) in log_path.read_text())
        finally:
            shutil.rmtree(root, ignore_errors=True)
    except Exception as err:  # never fail
        print('observe.py hit an error:', repr(err))
    sys.exit(0)


if __name__ == "__main__":
    main()
