#!/usr/bin/env python3
"""
Show that edit C03_i1 changes observable behaviour: when two candidate
types receive the same number of bootstrap votes, choose_node() now ranks
them in a different (still deterministic) order, so the reported winner /
runner-up order differs for tied cells.

The script builds two throw-away copies of the package source (HEAD of
/repo, and HEAD + patch.diff), runs the same seeded choose_node() call in
each, and prints the first cells whose answer differs.  Always exits 0.
"""
import json
import os
import pathlib
import subprocess
import sys
import tempfile

HERE = pathlib.Path(__file__).resolve().parent
PY = '/venv/bin/python'

PROBE = r'''
import json, sys
import numpy as np
from cell_type_mapper.type_assignment.election import choose_node
rng = np.random.default_rng(8812)
n_ref, n_query, n_genes = 5, 300, 12
ref = rng.random((n_ref, n_genes))
query = rng.random((n_query, n_genes))
types = ['type_%d' % i for i in range(n_ref)]
(winner, prob, corr, runners) = choose_node(
    query_gene_data=query,
    reference_gene_data=ref,
    reference_types=types,
    bootstrap_factor=0.5,
    bootstrap_iteration=2,
    rng=np.random.default_rng(5),
    n_assignments=5)
out = []
for w, p, c, r in zip(winner, prob, corr, runners):
    out.append({'winner': str(w), 'p': float(p),
                'runners': [(str(x[0]), float(x[3])) for x in r if x[1]]})
json.dump(out, sys.stdout)
'''


def build(tmp, name, patch):
    dst = pathlib.Path(tmp) / name
    dst.mkdir()
    tar = subprocess.run(['git', '-C', '/repo', 'archive', 'HEAD', 'src'],
                         check=True, stdout=subprocess.PIPE).stdout
    subprocess.run(['tar', '-x', '-C', str(dst)], input=tar, check=True)
    if patch:
        subprocess.run(['git', 'apply', '--unsafe-paths',
                        '--directory', str(dst), str(HERE / 'patch.diff')],
                       check=True, cwd=str(dst))
    return dst / 'src'


def probe(src):
    env = dict(os.environ)
    env['PYTHONPATH'] = str(src)
    env.pop('CELL_TYPE_MAPPER_VERIF', None)
    res = subprocess.run([PY, '-c', PROBE], env=env, check=True,
                         stdout=subprocess.PIPE)
    return json.loads(res.stdout)


def main():
    with tempfile.TemporaryDirectory() as tmp:
        before = probe(build(tmp, 'before', False))
        after = probe(build(tmp, 'after', True))
    n_diff = 0
    only_ties = True
    for i, (b, a) in enumerate(zip(before, after)):
        if b != a:
            n_diff += 1
            # same candidates with the same probabilities, only the
            # order among equal-probability candidates may differ
            cand_b = sorted([(b['winner'], b['p'])] + [tuple(r) for r in b['runners']])
            cand_a = sorted([(a['winner'], a['p'])] + [tuple(r) for r in a['runners']])
            if cand_b != cand_a:
                only_ties = False
            if n_diff <= 5:
                print('cell %d' % i)
                print('   before:', b)
                print('   after :', a)
    print('%d of %d cells differ; differences are only re-orderings of '
          'equal-vote candidates: %s' % (n_diff, len(before), only_ties))
    print('BEHAVIOUR CHANGED' if n_diff else 'no difference seen')


if __name__ == '__main__':
    try:
        main()
    except Exception as err:   # always exit 0
        print('observe.py failed:', repr(err))
    sys.exit(0)
