"""
Show the FILE TRACKER log lines produced by the FileTracker in whatever
cell_type_mapper is first on PYTHONPATH.

  PYTHONPATH=<tree>/src /venv/bin/python observe.py

At HEAD the lines read
    FILE TRACKER: copied ../<name> to ../<tmp name>
    FILE TRACKER: copied ../<tmp name> to ../<name>
    FILE TRACKER: cleaning up ../file_tracker_XXXX
With the patch they read
    FILE TRACKER: staged ../<name> as ../<tmp name> (<n> bytes)
    FILE TRACKER: wrote out ../<tmp name> as ../<name> (<n> bytes)
    FILE TRACKER: removing staging area ../file_tracker_XXXX
Always exits 0.
"""
import pathlib
import shutil
import sys
import tempfile


def main():
    try:
        from cell_type_mapper.cli.cli_log import CommandLog
        from cell_type_mapper.file_tracker.file_tracker import FileTracker
        root = pathlib.Path(tempfile.mkdtemp(prefix='observe_C20_i1_'))
        try:
            data_dir = root / 'data'
            scratch = root / 'scratch'
            data_dir.mkdir()
            scratch.mkdir()
            src = data_dir / 'input_file.txt'
            src.write_text('0123456789')
            dst = data_dir / 'output_file.txt'

            log = CommandLog()
            tracker = FileTracker(tmp_dir=scratch, log=log)
            tracker.add_file(src, input_only=True)
            tracker.add_file(dst, input_only=False)
            tracker.real_location(dst).write_text('abc')
            del tracker

            print('---- FILE TRACKER log lines ----')
            for line in log.log:
                print(line)
            patched = any('staged ../' in line for line in log.log)
            print('---- patched wording in use:', patched)
        finally:
            shutil.rmtree(root, ignore_errors=True)
    except Exception as err:  # never fail
        print('observe.py hit an error:', repr(err))
    sys.exit(0)


if __name__ == "__main__":
    main()
