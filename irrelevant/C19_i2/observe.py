"""
Show the observable change of edit C19_i2: the wording of the log lines
that FileTracker emits when it copies an input into scratch space and when
it removes its scratch directory.

Run once against the unpatched tree and once against the patched tree:

    PYTHONPATH=/repo/src          /venv/bin/python observe.py
    PYTHONPATH=/tmp/irr_C19/src   /venv/bin/python observe.py

unpatched:
    FILE TRACKER: copied ../input.txt to ../input_XXXXXXXX.txt
    FILE TRACKER: cleaning up ../file_tracker_XXXXXXXX
patched:
    FILE TRACKER: copied ../input.txt to ../input_XXXXXXXX.txt (1.10e+01 bytes in N.NNe-NN seconds)
    FILE TRACKER: removing scratch directory ../file_tracker_XXXXXXXX

In both cases the input file is byte-identical afterwards and the scratch
directory is empty. Always exits 0.
"""
import hashlib
import os
import pathlib
import shutil
import sys
import tempfile
import traceback


class ListLog(object):
    def __init__(self):
        self.lines = []

    def info(self, msg):
        self.lines.append(msg)


def main():
    import cell_type_mapper.file_tracker.file_tracker as ft
    print("module under observation:", ft.__file__)

    top = pathlib.Path(tempfile.mkdtemp(prefix='observe_C19_i2_'))
    scratch = top / 'scratch'
    scratch.mkdir()
    src = top / 'input.txt'
    src.write_bytes(b'hello world')
    before = (hashlib.md5(src.read_bytes()).hexdigest(),
              os.stat(src).st_mtime_ns)

    log = ListLog()
    tracker = ft.FileTracker(tmp_dir=scratch, log=log)
    tracker.add_file(src, input_only=True)
    during = sorted(p.name[:-8] for p in scratch.iterdir())
    del tracker

    after = (hashlib.md5(src.read_bytes()).hexdigest(),
             os.stat(src).st_mtime_ns)

    print("log lines:")
    for line in log.lines:
        print("   ", line)
    print("scratch sub-directories while tracker alive:", during)
    print("scratch contents after tracker deleted     :",
          sorted(os.listdir(scratch)))
    print("input unchanged (md5, mtime)               :", before == after)
    shutil.rmtree(top, ignore_errors=True)


if __name__ == "__main__":
    try:
        main()
    except Exception:
        traceback.print_exc()
    sys.exit(0)
