#!/usr/bin/env python
"""
Show that edit C07_i2 changes observable behaviour: extra informational
attributes on the query marker cache HDF5 file and an extra log line in
run_type_assignment_on_h5ad_cpu, while the mapping result is unchanged.

usage: observe.py [patched_src_dir]
If patched_src_dir is not given, a pristine copy of /repo HEAD is exported to
a temp dir and patch.diff (next to this file) is applied to it.
Runs the same probe against the original and the patched source tree and
prints both outputs. Always exits 0.
"""
import os
import pathlib
import subprocess
import sys
import tempfile

HERE = pathlib.Path(__file__).resolve().parent
PY = '/venv/bin/python'

PROBE = r'''
import tempfile, pathlib, warnings, json, hashlib, io, contextlib
warnings.simplefilter('ignore')
import numpy as np, pandas as pd, anndata, h5py
from cell_type_mapper.cli.cli_log import CommandLog
from cell_type_mapper.taxonomy.taxonomy_tree import TaxonomyTree
from cell_type_mapper.type_assignment.marker_cache_v2 import (
    write_query_markers_to_h5)
from cell_type_mapper.type_assignment.election_runner import (
    run_type_assignment_on_h5ad)

n_genes = 60
ref_genes = [f'gene_{ii}' for ii in range(n_genes)]
taxonomy = {
    'hierarchy': ['class', 'cluster'],
    'class': {'A': ['c0', 'c1', 'c2'], 'B': ['c3', 'c4']},
    'cluster': {f'c{ii}': [str(ii)] for ii in range(5)}}
tree = TaxonomyTree(data=taxonomy)
rng = np.random.default_rng(2231)
means = rng.random((5, n_genes))*10.0

with tempfile.TemporaryDirectory() as d:
    d = pathlib.Path(d)
    pre = str(d/'pre.h5')
    with h5py.File(pre, 'w') as f:
        f.create_dataset('cluster_to_row', data=json.dumps(
            {f'c{ii}': ii for ii in range(5)}).encode('utf-8'))
        f.create_dataset('col_names',
                         data=json.dumps(ref_genes).encode('utf-8'))
        f.create_dataset('n_cells', data=np.ones(5, dtype=int))
        f.create_dataset('sum', data=means)
        for k in ('gt1', 'gt0', 'ge1', 'sumsq'):
            f.create_dataset(k, data=np.zeros((5, n_genes), dtype=int))

    # query: reference genes in a different order + 7 extra genes
    query_genes = list(ref_genes[::-1]) + [f'extra_{ii}' for ii in range(7)]
    n_cells = 11
    x = np.round(rng.random((n_cells, len(query_genes)))*50.0)
    q = str(d/'query.h5ad')
    anndata.AnnData(
        X=x,
        obs=pd.DataFrame(index=[f'cell_{ii}' for ii in range(n_cells)]),
        var=pd.DataFrame(index=query_genes)).write_h5ad(q)

    marker_lookup = {
        'None': ref_genes[0:12],
        'class/A': ref_genes[8:20],
        'class/B': ref_genes[30:41]}
    cache = str(d/'markers.h5')
    write_query_markers_to_h5(
        marker_lookup=marker_lookup,
        reference_gene_names=ref_genes,
        query_gene_names=query_genes,
        output_cache_path=cache)
    with h5py.File(cache, 'r') as f:
        print('MARKER CACHE FILE ATTRS:',
              {k: int(v) for k, v in sorted(f.attrs.items())})
        print('MARKER CACHE TOP-LEVEL KEYS:', sorted(f.keys()))

    log = CommandLog()
    with contextlib.redirect_stdout(io.StringIO()):
        result = run_type_assignment_on_h5ad(
            query_h5ad_path=q,
            precomputed_stats_path=pre,
            marker_gene_cache_path=cache,
            taxonomy_tree=tree,
            n_processors=2,
            chunk_size=4,
            bootstrap_factor_lookup={'None': 0.5, 'class': 0.5,
                                     'cluster': 0.5},
            bootstrap_iteration=20,
            rng=np.random.default_rng(771),
            normalization='raw',
            log=log)
    print('LOG LINES (timestamps stripped):')
    for line in log.log:
        print('   ', line.split(' == ', 1)[1])
    from cell_type_mapper.utils.utils import clean_for_json
    h = hashlib.md5(json.dumps(
        clean_for_json(result), sort_keys=True).encode('utf-8')).hexdigest()
    print('MD5 OF MAPPING RESULT (should be identical in both trees):', h)
'''


def run(src):
    env = dict(os.environ)
    env['PYTHONPATH'] = str(src)
    r = subprocess.run([PY, '-c', PROBE], env=env, capture_output=True,
                       text=True)
    return r.stdout + (('STDERR: ' + r.stderr[-2000:]) if r.returncode else '')


def main():
    try:
        with tempfile.TemporaryDirectory() as tmp:
            if len(sys.argv) > 1:
                patched = pathlib.Path(sys.argv[1])
            else:
                root = pathlib.Path(tmp) / 'patched'
                root.mkdir()
                ar = subprocess.run(
                    ['git', '-C', '/repo', 'archive', 'HEAD', 'src'],
                    capture_output=True, check=True)
                subprocess.run(['tar', '-x', '-C', str(root)],
                               input=ar.stdout, check=True)
                subprocess.run(
                    ['git', 'apply', str(HERE / 'patch.diff')],
                    cwd=root, check=True)
                patched = root / 'src'
            orig = pathlib.Path(tmp) / 'orig'
            orig.mkdir()
            ar = subprocess.run(
                ['git', '-C', '/repo', 'archive', 'HEAD', 'src'],
                capture_output=True, check=True)
            subprocess.run(['tar', '-x', '-C', str(orig)],
                           input=ar.stdout, check=True)
            o = run(orig / 'src')
            n = run(patched)
            print('=== ORIGINAL ===')
            print(o)
            print('=== PATCHED ===')
            print(n)
            print('BEHAVIOUR CHANGED:', o != n)
    except Exception as e:  # always exit 0
        print('observe.py failed:', repr(e))
    sys.exit(0)


if __name__ == '__main__':
    main()
