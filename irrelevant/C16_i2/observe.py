"""
Show the observable change of edit C16_i2: the names of the scratch
directories / scratch files that validate_h5ad creates under tmp_dir
while it runs (they are still created under tmp_dir and still removed).

Run as
    PYTHONPATH=<worktree>/src /venv/bin/python observe.py
Unpatched package, names look like
    <tmp>/tmpXXXXXXXX/                               (scratch dir)
    <tmp>/tmpXXXXXXXX/input.h5adXXXXXXXX.h5ad        (scratch copy)
    .../round_x_to_integers_staging_XXXXXXXX/data_as_int_XXXXXXXX.h5
Patched package
    <tmp>/validate_h5ad_XXXXXXXX/
    <tmp>/validate_h5ad_XXXXXXXX/validation_scratch_copy_XXXXXXXX.h5ad
    .../rounding_staging_XXXXXXXX/rounded_values_XXXXXXXX.h5
Always exits 0.
"""
import sys
import traceback


def main():
    import os
    import pathlib
    import tempfile
    import warnings
    import anndata
    import numpy as np
    import pandas as pd
    import cell_type_mapper
    from cell_type_mapper.gene_id.gene_id_mapper import GeneIdMapper
    from cell_type_mapper.validation.validate_h5ad import validate_h5ad

    print("package loaded from", cell_type_mapper.__file__)

    created = []
    orig_mkdtemp = tempfile.mkdtemp
    orig_mkstemp = tempfile.mkstemp

    def spy_mkdtemp(*args, **kwargs):
        val = orig_mkdtemp(*args, **kwargs)
        created.append(('dir ', val))
        return val

    def spy_mkstemp(*args, **kwargs):
        val = orig_mkstemp(*args, **kwargs)
        created.append(('file', val[1]))
        return val

    top = pathlib.Path(orig_mkdtemp(prefix='observe_C16_i2_'))
    work = top / 'scratch'
    work.mkdir()
    try:
        obs = pd.DataFrame(
            [{'cell_id': f'c{i}'} for i in range(4)]).set_index('cell_id')
        var = pd.DataFrame(
            [{'gene_id': f'ENSG{i}'} for i in range(3)]).set_index('gene_id')
        x = np.array([[0.0, 1.4, 255.5],
                      [2.0, 0.0, 3.6],
                      [0.0, 7.5, 0.0],
                      [31.2, 0.0, 1.0]], dtype=np.float32)
        src = top / 'input.h5ad'
        anndata.AnnData(X=x, obs=obs, var=var).write_h5ad(src)
        mapper = GeneIdMapper(data={'a': 'ENSG0'})

        tempfile.mkdtemp = spy_mkdtemp
        tempfile.mkstemp = spy_mkstemp
        try:
            with warnings.catch_warnings():
                warnings.simplefilter('ignore')
                out, _ = validate_h5ad(
                    h5ad_path=src, gene_id_mapper=mapper, log=None,
                    expected_max=None, tmp_dir=work, layer='X',
                    round_to_int=True, valid_h5ad_path=top / 'out.h5ad')
        finally:
            tempfile.mkdtemp = orig_mkdtemp
            tempfile.mkstemp = orig_mkstemp

        for kind, name in created:
            rel = os.path.relpath(name, work)
            print("SCRATCH", kind, rel)
        print("left behind in tmp_dir after the call:",
              sorted(p.name for p in work.iterdir()))
        res = anndata.read_h5ad(out)
        print("output dtype:", res.X.dtype, "output X:", res.X.tolist())
    finally:
        import shutil
        shutil.rmtree(top, ignore_errors=True)


if __name__ == "__main__":
    try:
        main()
    except Exception:
        traceback.print_exc()
    sys.exit(0)
