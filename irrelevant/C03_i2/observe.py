#!/usr/bin/env python3
"""
Show that edit C03_i2 changes observable behaviour:
  * two additional INFO lines in the CommandLog (which ends up in the
    'log' entry of the extended JSON output),
  * a different name of the temporary buffer directory and of the
    per-chunk buffer files written below results_output_path,
  * as a consequence of the zero-padded file names, a different order of
    the cells in the list returned by run_type_assignment_on_h5ad_cpu
    (election_runner re-orders that list to obs order afterwards),
while the per-cell mapping results are identical.

The script builds two throw-away copies of the package source (HEAD of
/repo, and HEAD + patch.diff) and runs the same small seeded mapping in
each.  Always exits 0.
"""
import json
import os
import pathlib
import subprocess
import sys
import tempfile

HERE = pathlib.Path(__file__).resolve().parent
PY = '/venv/bin/python'

PROBE = r'''
import json, sys, pathlib, tempfile, warnings
warnings.simplefilter('ignore')
import anndata, h5py
import numpy as np
import pandas as pd
import cell_type_mapper.type_assignment.election as election
from cell_type_mapper.cli.cli_log import CommandLog
from cell_type_mapper.taxonomy.taxonomy_tree import TaxonomyTree

tmp = pathlib.Path(tempfile.mkdtemp(dir=sys.argv[1]))
n_genes = 60
gene_names = ['gene_%d' % i for i in range(n_genes)]
taxonomy = {
    'hierarchy': ['level_1', 'level_2', 'cluster'],
    'level_1': {'A': ['aa', 'bb'], 'B': ['cc'], 'C': ['dd', 'ee']},
    'level_2': {'aa': ['c1', 'c2'], 'bb': ['c3', 'c4', 'c5'],
                'cc': ['c6', 'c7', 'c8', 'c9'], 'dd': ['c10', 'c11'],
                'ee': ['c12', 'c13']},
    'cluster': {'c%d' % i: [i, i+22] for i in range(1, 14)}}
tree = TaxonomyTree(data=taxonomy)
clusters = list(taxonomy['cluster'].keys())
rng = np.random.default_rng(2231)
means = rng.random((len(clusters), n_genes))

pre = tmp / 'precomputed.h5'
with h5py.File(pre, 'w') as dst:
    dst.create_dataset('cluster_to_row', data=json.dumps(
        {c: i for i, c in enumerate(clusters)}).encode('utf-8'))
    dst.create_dataset('col_names',
                       data=json.dumps(gene_names).encode('utf-8'))
    dst.create_dataset('n_cells', data=np.ones(len(clusters), dtype=int))
    dst.create_dataset('sum', data=means)
    for k in ('gt1', 'gt0', 'ge1', 'sumsq'):
        dst.create_dataset(
            k, data=np.zeros((len(clusters), n_genes), dtype=int))

n_query = 13
x = means[rng.integers(0, len(clusters), n_query)] \
    + 0.6*rng.random((n_query, n_genes))
obs = pd.DataFrame(
    [{'cell_id': 'cell_%d' % i} for i in range(n_query)]).set_index('cell_id')
var = pd.DataFrame(
    [{'gene_name': g} for g in gene_names]).set_index('gene_name')
query = tmp / 'query.h5ad'
anndata.AnnData(X=x, obs=obs, var=var).write_h5ad(query)

marker = tmp / 'marker.h5'
parents = ['None']
for level in taxonomy['hierarchy'][:-1]:
    for node in taxonomy[level]:
        parents.append('%s/%s' % (level, node))
all_markers = set()
with h5py.File(marker, 'w') as dst:
    for grp in parents:
        chosen = rng.choice(np.arange(n_genes), 9, replace=False)
        dst.create_dataset(grp + '/reference', data=chosen)
        dst.create_dataset(grp + '/query', data=chosen)
        all_markers |= set(int(c) for c in chosen)
    all_markers = np.sort(np.array(list(all_markers)))
    dst.create_dataset('all_query_markers', data=all_markers)
    dst.create_dataset('all_reference_markers', data=all_markers)
    dst.create_dataset('query_gene_names',
                       data=json.dumps(gene_names).encode('utf-8'))
    dst.create_dataset('reference_gene_names',
                       data=json.dumps(gene_names).encode('utf-8'))

# spy on the buffer directory just before it is removed
seen = {}
orig_clean_up = election._clean_up
def spy(target):
    target = pathlib.Path(target)
    seen['dir'] = target.name
    seen['files'] = sorted(p.name for p in target.iterdir())
    return orig_clean_up(target)
election._clean_up = spy

buffer_parent = tmp / 'buffer'
buffer_parent.mkdir()
lookup = {k: 0.5 for k in ['None'] + taxonomy['hierarchy']}
log = CommandLog()
result = election.run_type_assignment_on_h5ad_cpu(
    query_h5ad_path=query,
    precomputed_stats_path=pre,
    marker_gene_cache_path=marker,
    taxonomy_tree=tree,
    n_processors=2,
    chunk_size=2,
    bootstrap_factor_lookup=lookup,
    bootstrap_iteration=10,
    rng=np.random.default_rng(77),
    n_assignments=3,
    normalization='log2CPM',
    tmp_dir=str(tmp),
    log=log,
    results_output_path=str(buffer_parent))
sys.stdout.write('\n@@JSON@@')
json.dump({'log': log.log,
           'buffer_dir': seen.get('dir'),
           'buffer_files': seen.get('files'),
           'left_behind': sorted(p.name for p in buffer_parent.iterdir()),
           'cell_order': [c['cell_id'] for c in result],
           'per_cell': {c['cell_id']: c for c in result}},
          sys.stdout)
'''


def build(tmp, name, patch):
    dst = pathlib.Path(tmp) / name
    dst.mkdir()
    tar = subprocess.run(['git', '-C', '/repo', 'archive', 'HEAD', 'src'],
                         check=True, stdout=subprocess.PIPE).stdout
    subprocess.run(['tar', '-x', '-C', str(dst)], input=tar, check=True)
    if patch:
        subprocess.run(['git', 'apply', '--unsafe-paths',
                        '--directory', str(dst), str(HERE / 'patch.diff')],
                       check=True, cwd=str(dst))
    return dst / 'src'


def probe(src, scratch):
    env = dict(os.environ)
    env['PYTHONPATH'] = str(src)
    env.pop('CELL_TYPE_MAPPER_VERIF', None)
    res = subprocess.run([PY, '-c', PROBE, str(scratch)], env=env,
                         check=True, stdout=subprocess.PIPE,
                         stderr=subprocess.DEVNULL)
    return json.loads(res.stdout.decode('utf-8').split('@@JSON@@')[-1])


def show(tag, obs):
    print('---- %s ----' % tag)
    print('log lines:')
    for line in obs['log']:
        print('    ' + line)
    print('buffer dir :', obs['buffer_dir'])
    print('buffer files:', obs['buffer_files'])
    print('left behind after the call:', obs['left_behind'])
    print('order of returned cells:', obs['cell_order'])


def main():
    with tempfile.TemporaryDirectory() as tmp:
        before = probe(build(tmp, 'before', False), tmp)
        after = probe(build(tmp, 'after', True), tmp)
    show('before (HEAD)', before)
    show('after (HEAD + patch)', after)
    print()
    print('per-cell results identical:',
          before['per_cell'] == after['per_cell'])
    changed = (len(before['log']) != len(after['log'])
               or before['buffer_files'] != after['buffer_files']
               or before['cell_order'] != after['cell_order'])
    print('BEHAVIOUR CHANGED' if changed else 'no difference seen')


if __name__ == '__main__':
    try:
        main()
    except Exception as err:   # always exit 0
        print('observe.py failed:', repr(err))
    sys.exit(0)
