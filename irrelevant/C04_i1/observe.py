#!/usr/bin/env python
"""
Show the observable change of edit C04_i1: names of the temporary
per-chunk result files (and of the directory that holds them) written by
the type-assignment workers, and hence the order in which
run_type_assignment_on_h5ad_cpu concatenates them.

Run once with PYTHONPATH=<original>/src and once with
PYTHONPATH=<patched>/src and compare the output.

original: ['10_15_assignment.json', '5_10_assignment.json']
          prefix 'results_buffer_'
patched:  ['chunk_000000000005_000000000010.json',
           'chunk_000000000010_000000000015.json']
          prefix 'assignment_chunks_'
"""
import sys


def main():
    import inspect
    import pathlib
    import re
    import shutil
    import tempfile
    import cell_type_mapper.type_assignment.election as election

    print("module:", election.__file__)

    # the worker delegates the science to run_type_assignment; stub it
    # so that only the file handling is exercised
    election.run_type_assignment = (
        lambda **kw: [{'dummy': 0}
                      for _ in range(kw['full_query_gene_data'])])

    tmp = pathlib.Path(tempfile.mkdtemp(prefix='observe_C04_i1_'))
    try:
        for r0, r1 in ((10, 15), (5, 10)):
            election._run_type_assignment_on_h5ad_worker(
                r0=r0, r1=r1,
                query_cell_chunk=r1-r0,
                query_cell_names=[f'c{ii}' for ii in range(r0, r1)],
                leaf_node_matrix=None,
                marker_gene_cache_path=None,
                taxonomy_tree=None,
                bootstrap_factor_lookup=None,
                bootstrap_iteration=1,
                rng=None,
                n_assignments=1,
                output_list=None,
                output_lock=None,
                results_output_path=tmp)
        names = sorted(n.name for n in tmp.iterdir())
        print("per-chunk files, in the order they are merged:", names)
    finally:
        shutil.rmtree(tmp, ignore_errors=True)

    src = inspect.getsource(election.run_type_assignment_on_h5ad_cpu)
    print("buffer directory prefix:",
          re.findall(r"prefix='([^']*)'", src))


if __name__ == "__main__":
    try:
        main()
    except Exception as err:   # always exit 0
        print("observe.py failed:", repr(err))
    sys.exit(0)
