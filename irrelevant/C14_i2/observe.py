"""Show (1) the name of the result-buffer scratch directory that
run_mapping creates and (2) the log lines written when the mapping
fails.  _run_mapping is replaced by a stub that records its
tmp_result_dir argument and then raises, which is exactly what happens
when a mapping worker dies (winnow_process_list raises RuntimeError).

Run against the original and the patched tree, e.g.
  PYTHONPATH=/repo/src       python observe.py
  PYTHONPATH=<patched>/src   python observe.py
Original: scratch dir 'result_buffer_XXXX'; failure log has the
          'an ERROR occurred ====' traceback entry only.
Patched : scratch dir 'mapping_result_buffer_XXXX'; failure log has an
          extra line 'mapping aborted by RuntimeError after ... seconds'
          before the traceback entry.
Always exits 0.
"""
import json
import pathlib
import shutil
import sys
import tempfile
import warnings


def main():
    scratch = pathlib.Path(tempfile.mkdtemp(prefix='observe_C14_i2_'))
    try:
        warnings.simplefilter('ignore')
        import anndata
        import numpy as np
        import pandas as pd
        import cell_type_mapper.cli.from_specified_markers as mod

        query_path = scratch / 'query.h5ad'
        anndata.AnnData(
            X=np.zeros((3, 2), dtype=np.float32),
            obs=pd.DataFrame(index=[f'c{i}' for i in range(3)]),
            var=pd.DataFrame(index=['g0', 'g1'])).write_h5ad(query_path)

        seen = {}

        def stub(config, tmp_dir, tmp_result_dir, log):
            seen['tmp_result_dir'] = pathlib.Path(tmp_result_dir).name
            raise RuntimeError("One of the processes exited with code 1")

        mod._run_mapping = stub
        work = scratch / 'tmp'
        work.mkdir()
        config = {
            'cloud_safe': False,
            'tmp_dir': str(work),
            'extended_result_dir': None,
            'summary_metadata_path': None,
            'query_path': str(query_path)}
        out_path = scratch / 'out.json'
        log_path = scratch / 'log.txt'
        try:
            mod.run_mapping(
                config, output_path=out_path, log_path=log_path)
            print("run_mapping: NO ERROR RAISED")
        except Exception as err:
            print(f"run_mapping raised {type(err).__name__}: {err}")

        print("result buffer dir name:", seen.get('tmp_result_dir'))
        print("scratch left behind:", sorted(p.name for p in work.iterdir()))
        blob = json.load(open(out_path))
        print("output keys:", sorted(blob.keys()))
        print("log lines in output json:")
        for line in blob['log']:
            print("   ", line.split('\n')[0])
        print("has 'mapping aborted' line:",
              any('mapping aborted by' in ln for ln in blob['log']))
        print("has success message:",
              any('RAN SUCCESSFULLY' in ln for ln in blob['log']))
    except Exception as err:   # never fail
        print("observe.py problem:", repr(err))
    finally:
        shutil.rmtree(scratch, ignore_errors=True)
    sys.exit(0)


if __name__ == "__main__":
    main()
