#!/usr/bin/env python3
"""
Show the observable difference made by patch.diff (property C12, edit 1).

Runs one and the same small query-marker-selection workload twice:
  * against the ORIGINAL sources   (/repo/src)
  * against a temporary copy of the sources with patch.diff applied
and prints what differs (worker stdout line; keys of the per-parent summary
log), as well as what does NOT differ (the selected genes; the C12 coverage
check).

usage: /venv/bin/python observe.py [path/to/original/repo]   (default /repo)
Always exits 0.
"""
import json
import os
import pathlib
import shutil
import subprocess
import sys
import tempfile

HERE = pathlib.Path(__file__).resolve().parent
PY = '/venv/bin/python' if os.path.exists('/venv/bin/python') else sys.executable

WORKLOAD = r'''
import copy, json, sys, tempfile, pathlib
from itertools import combinations
import h5py, numpy as np, scipy.sparse as sp
from cell_type_mapper.taxonomy.taxonomy_tree import TaxonomyTree
from cell_type_mapper.diff_exp.markers import add_sparse_by_gene_markers_to_file
from cell_type_mapper.marker_selection.selection_pipeline import select_all_markers

def main():
    rng = np.random.default_rng(20240612)
    tree = {'hierarchy': ['class', 'subclass', 'cluster'],
            'class': {'aa': ['a', 'b', 'c'], 'bb': ['e'], 'cc': ['f', 'g']},
            'subclass': {}, 'cluster': {}}
    ct = 0
    for s in 'abcefg':
        n = 1 if s == 'a' else int(rng.integers(2, 5))
        tree['subclass'][s] = []
        for _ in range(n):
            tree['subclass'][s].append(f'cluster_{ct:02d}')
            tree['cluster'][f'cluster_{ct:02d}'] = [2*ct, 2*ct+1]
            ct += 1
    clusters = sorted(tree['cluster'])
    pair_to_idx = {'cluster': {}}
    pairs = list(combinations(clusters, 2))
    for idx, (c0, c1) in enumerate(pairs):
        pair_to_idx['cluster'].setdefault(c0, {})[c1] = idx
    n_pairs = len(pairs)
    n_genes = 120
    genes = [f'g_{ii}' for ii in range(n_genes)]
    is_marker = rng.random((n_genes, n_pairs)) < 0.25
    is_marker[:, 3] = False                    # a pair with no marker
    is_marker[10:, 5] = False                  # a pair with very few markers
    up = rng.integers(0, 2, (n_genes, n_pairs), dtype=bool)
    up[:, 7] = True                            # a one-directional pair
    up_m = np.logical_and(is_marker, up)
    down_m = np.logical_and(is_marker, ~up)
    tmp = pathlib.Path(tempfile.mkdtemp(prefix='c12_observe_'))
    try:
        h5 = tmp / 'ref_markers.h5'
        csc_up = sp.csc_array(up_m)
        csc_down = sp.csc_array(down_m)
        with h5py.File(h5, 'a') as dst:
            dst.create_dataset('pair_to_idx', data=json.dumps(pair_to_idx).encode('utf-8'))
            dst.create_dataset('gene_names', data=json.dumps(genes).encode('utf-8'))
            dst.create_dataset('n_pairs', data=n_pairs)
            grp = dst.create_group('sparse_by_pair')
            grp.create_dataset('up_gene_idx', data=csc_up.indices)
            grp.create_dataset('up_pair_idx', data=csc_up.indptr)
            grp.create_dataset('down_gene_idx', data=csc_down.indices)
            grp.create_dataset('down_pair_idx', data=csc_down.indptr)
        add_sparse_by_gene_markers_to_file(h5_path=h5, n_genes=n_genes, max_gb=1, tmp_dir=tmp)
        query = [g for ii, g in enumerate(genes) if ii % 5 != 0] + ['not_a_ref_gene']
        taxonomy_tree = TaxonomyTree(data=tree)
        n_per = 4
        results = {}
        for n_proc, cutoff in ((1, 1000000), (3, -1)):
            sys.stdout.flush()
            markers, log = select_all_markers(
                marker_cache_path=h5, query_gene_names=query,
                taxonomy_tree=taxonomy_tree, n_per_utility=n_per,
                n_processors=n_proc, behemoth_cutoff=cutoff, tmp_dir=tmp)
            sys.stdout.flush()
            results[(n_proc, cutoff)] = (markers, log)
        markers, log = results[(1, 1000000)]
        markers2, _ = results[(3, -1)]

        # literal check of property C12 on this input
        qset = set(query)
        gidx = {g: i for i, g in enumerate(genes)}
        ok = True
        for parent in taxonomy_tree.all_parents:
            sel = markers[parent]
            leaves = taxonomy_tree.leaves_to_compare(parent)
            ok &= (len(sel) == len(set(sel)))
            ok &= all(g in qset for g in sel)
            ok &= (sorted(sel) == sorted(markers2[parent]))
            if len(leaves) == 0:
                ok &= (len(sel) == 0)
                continue
            cols = [pair_to_idx[l[0]][l[1]][l[2]] for l in leaves]
            for g in sel:
                ok &= bool(is_marker[gidx[g], cols].any())
            sel_idx = [gidx[g] for g in sel]
            q_idx = [gidx[g] for g in query if g in gidx]
            for c in cols:
                have = int(is_marker[sel_idx, c].sum())
                avail = int(is_marker[q_idx, c].sum())
                ok &= (have >= min(2*n_per, avail))
        def key(p):
            return 'None' if p is None else f'{p[0]}/{p[1]}'
        out = {
            'summary_log_keys[None]': sorted(log['None'].keys()),
            'summary_log[class/bb]': log['class/bb'],
            'summary_log[None] (minus duration)': {
                k: v for k, v in log['None'].items() if k != 'duration'},
            'selected': {key(p): sorted(markers[p]) for p in markers},
            'C12_holds_on_this_input': bool(ok)}
        print('@@RESULT@@' + json.dumps(out, sort_keys=True))
    finally:
        import shutil
        shutil.rmtree(tmp, ignore_errors=True)

if __name__ == '__main__':
    main()
'''


def run(src_dir):
    env = dict(os.environ)
    env['PYTHONPATH'] = str(src_dir)
    env.pop('CELL_TYPE_MAPPER_VERIF', None)
    with tempfile.TemporaryDirectory() as d:
        script = pathlib.Path(d) / 'workload.py'
        script.write_text(WORKLOAD)
        proc = subprocess.run([PY, str(script)], env=env, cwd=d,
                              capture_output=True, text=True)
    lines = proc.stdout.splitlines()
    result = None
    stdout_lines = []
    for line in lines:
        if line.startswith('@@RESULT@@'):
            result = json.loads(line[len('@@RESULT@@'):])
        else:
            stdout_lines.append(line)
    if result is None:
        print(proc.stderr[-3000:])
    return stdout_lines, result


def main():
    repo = pathlib.Path(sys.argv[1] if len(sys.argv) > 1 else '/repo')
    work = pathlib.Path(tempfile.mkdtemp(prefix='c12_obs_src_'))
    try:
        (work / 'src').mkdir()
        shutil.copytree(repo / 'src' / 'cell_type_mapper',
                        work / 'src' / 'cell_type_mapper')
        subprocess.run(['git', 'apply', str(HERE / 'patch.diff')],
                       cwd=work, check=True)
        before_out, before = run(repo / 'src')
        after_out, after = run(work / 'src')

        print('=== worker stdout, ORIGINAL (first run: 1 worker) ===')
        for line in before_out[:6]:
            print('   ', line)
        print('=== worker stdout, PATCHED (first run: 1 worker) ===')
        for line in after_out[:6]:
            print('   ', line)
        print('stdout differs:', sorted(before_out) != sorted(after_out))
        print()
        for k in ('summary_log_keys[None]', 'summary_log[None] (minus duration)',
                  'summary_log[class/bb]'):
            print(f'--- {k}')
            print('    ORIGINAL:', before[k])
            print('    PATCHED :', after[k])
            print('    differs :', before[k] != after[k])
        print()
        print('selected genes identical for every parent:',
              before['selected'] == after['selected'])
        if before['selected'] != after['selected']:
            for p in before['selected']:
                if before['selected'][p] != after['selected'][p]:
                    b = set(before['selected'][p])
                    a = set(after['selected'][p])
                    print(f'    parent {p}: n_original={len(b)} n_patched={len(a)}'
                          f' only_original={sorted(b-a)} only_patched={sorted(a-b)}')
        print('C12 literal check (no dups / in query / marker of a relevant pair /'
              ' empty when nothing to discriminate / coverage >= min(2n, avail) /'
              ' same for (1 worker, huge cutoff) and (3 workers, cutoff -1)):')
        print('    ORIGINAL:', before['C12_holds_on_this_input'])
        print('    PATCHED :', after['C12_holds_on_this_input'])
    finally:
        shutil.rmtree(work, ignore_errors=True)


if __name__ == '__main__':
    try:
        main()
    except Exception as err:  # always exit 0
        print(f'observe.py hit an unexpected problem: {err!r}')
    sys.exit(0)
