"""
Show the on-disk layout of the temporary marker cache written by
write_query_markers_to_h5 (via create_marker_cache_from_specified_markers):
dtype of the per-parent 'reference'/'query' index datasets (notably for a
parent with an empty marker list) and the attributes of each parent group.
Also prints the marker table serialize_markers reads back, which is the
same before and after the patch.  Run with PYTHONPATH=<worktree>/src to see
the patched layout, without it for the original.  Always exits 0.
"""
import sys
import tempfile
import pathlib
import warnings

try:
    import h5py
    import cell_type_mapper
    from cell_type_mapper.type_assignment.marker_cache_v2 import (
        create_marker_cache_from_specified_markers)

    print("package from:", cell_type_mapper.__file__)
    reference = [f"g{ii}" for ii in range(20)]
    query = ["g7", "g3", "g11", "g0", "zzz"]
    lookup = {
        "None": ["g0", "g3", "g5", "g9"],
        "class/A": ["g7", "g11", "g13"],
        "class/B": []}
    with tempfile.TemporaryDirectory() as tmp:
        pth = pathlib.Path(tmp) / "cache.h5"
        with warnings.catch_warnings():
            warnings.simplefilter("ignore")
            create_marker_cache_from_specified_markers(
                marker_lookup=lookup,
                reference_gene_names=reference,
                query_gene_names=query,
                output_cache_path=pth)
        with h5py.File(pth, "r") as src:
            for grp in ("None", "class/A", "class/B"):
                ref = src[grp]["reference"]
                qry = src[grp]["query"]
                print(f"{grp}: reference dtype={ref.dtype} "
                      f"query dtype={qry.dtype} "
                      f"group attrs={dict(src[grp].attrs)}")
                used = [reference[int(ii)] for ii in ref[()]]
                used_q = [query[int(ii)] for ii in qry[()]]
                print(f"    markers used: ref={used} query={used_q}")
except Exception as err:  # noqa
    print("observe.py hit an exception:", repr(err))
sys.exit(0)
