"""
Show that the reference-marker HDF5 file skeleton written by
markers._prep_output_file now carries two extra informational datasets
('n_genes', 'leaf_level').  Run with PYTHONPATH=<worktree>/src to see the
patched behaviour, without to see the original.  Always exits 0.
"""
import pathlib
import sys
import tempfile

try:
    import h5py
    from cell_type_mapper.taxonomy.taxonomy_tree import TaxonomyTree
    from cell_type_mapper.diff_exp.markers import _prep_output_file

    tree = TaxonomyTree(data={
        'hierarchy': ['class', 'cluster'],
        'class': {'A': ['c0', 'c1'], 'B': ['c2']},
        'cluster': {'c0': [0, 1], 'c1': [2], 'c2': [3, 4]}})

    with tempfile.TemporaryDirectory() as tmp:
        path = pathlib.Path(tmp) / 'ref_markers.h5'
        _prep_output_file(
            output_path=path,
            taxonomy_tree=tree,
            gene_names=['g0', 'g1', 'g2'])
        with h5py.File(path, 'r') as src:
            keys = sorted(src.keys())
            print('top-level datasets in reference marker skeleton:', keys)
            for k in ('n_genes', 'leaf_level'):
                if k in src:
                    print(f'  {k} = {src[k][()]!r}   <-- NEW')
                else:
                    print(f'  {k} absent (original behaviour)')
except Exception as err:  # never fail
    print('observe.py could not run:', repr(err))
sys.exit(0)
