"""
Show the observable differences introduced by edit C13_i1 in
cell_type_mapper.utils.csc_to_csr_parallel:

  * wording of the "join" log line printed on stdout
  * names of the temporary directory / per-worker files
  * HDF5 chunk layout of the output datasets (only differs for > 262144
    stored entries; the source constant is printed instead)

Run with   PYTHONPATH=<worktree>/src /venv/bin/python observe.py
against the unpatched and the patched tree and compare the output.
Always exits 0.
"""
import contextlib
import inspect
import io
import os
import pathlib
import re
import sys
import tempfile

try:
    import h5py
    import numpy as np
    import scipy.sparse as scipy_sparse

    import cell_type_mapper.utils.csc_to_csr_parallel as par
    import cell_type_mapper.utils.utils as ctm_utils

    rng = np.random.default_rng(0)
    dense = rng.integers(1, 9, (13, 7)).astype(np.float32)
    dense[rng.random(dense.shape) < 0.6] = 0
    csr = scipy_sparse.csr_matrix(dense)

    scratch = pathlib.Path(tempfile.mkdtemp(prefix='observe_c13_i1_'))
    src_path = scratch / 'src.h5'
    dst_path = scratch / 'dst.h5'
    with h5py.File(src_path, 'w') as dst:
        dst.create_dataset('data', data=csr.data)
        dst.create_dataset('indices', data=csr.indices)
        dst.create_dataset('indptr', data=csr.indptr)

    # record the names of the temporary things that get created
    seen = []
    orig_mkdtemp = tempfile.mkdtemp
    orig_mkstemp_clean = par.mkstemp_clean

    def spy_mkdtemp(*args, **kwargs):
        out = orig_mkdtemp(*args, **kwargs)
        seen.append(('tmp dir ', pathlib.Path(out).name))
        return out

    def spy_mkstemp_clean(*args, **kwargs):
        out = orig_mkstemp_clean(*args, **kwargs)
        seen.append(('tmp file', pathlib.Path(out).name))
        return out

    tempfile.mkdtemp = spy_mkdtemp
    par.mkstemp_clean = spy_mkstemp_clean

    buf = io.StringIO()
    with contextlib.redirect_stdout(buf):
        par.transpose_sparse_matrix_on_disk_v2(
            h5_path=src_path,
            indices_tag='indices',
            indptr_tag='indptr',
            data_tag='data',
            indices_max=dense.shape[1],
            max_gb=1,
            output_path=dst_path,
            tmp_dir=scratch,
            n_processors=3)
    tempfile.mkdtemp = orig_mkdtemp
    par.mkstemp_clean = orig_mkstemp_clean

    log = re.sub(r'[0-9]\.[0-9]+e[-+][0-9]+', '<T>', buf.getvalue().strip())
    print('LOG LINE :', log)
    for kind, name in seen:
        # strip the random part that tempfile appends
        stem = re.sub(r'[A-Za-z0-9_]{8}(\.h5)?$', r'********\1', name)
        print(kind.upper(), ':', stem)

    src = inspect.getsource(par._transpose_sparse_matrix_on_disk_v2)
    print('JOIN BLOCK / HDF5 CHUNK CONSTANTS :',
          sorted(set(re.findall(r'\b(?:1000000|262144)\b', src))))

    with h5py.File(dst_path, 'r') as f:
        got = scipy_sparse.csc_matrix(
            (f['data'][()], f['indices'][()], f['indptr'][()]),
            shape=dense.shape).toarray()
        print('output chunks (small matrix):', f['indices'].chunks)
    print('result is still the exact transpose:',
          bool(np.array_equal(got, dense)))
    print('temporary directory removed:',
          [p.name for p in scratch.iterdir()] == ['src.h5', 'dst.h5']
          or sorted(p.name for p in scratch.iterdir()) == ['dst.h5', 'src.h5'])
    ctm_utils._clean_up(scratch)
except Exception as err:   # never fail
    print('observe.py hit an exception:', repr(err))
sys.exit(0)
