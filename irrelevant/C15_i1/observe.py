"""
Shows the observable change of edit C15_i1: the HDF5 filter pipeline of the
result datasets written by blob_to_hdf5 (gzip level and byte-shuffle filter),
and hence the bytes/size of the file on disk, differ; the blob read back by
hdf5_to_blob is identical.

Run with  PYTHONPATH=<worktree>/src /venv/bin/python observe.py
(once against the original source, once against the patched source).
"""
import json
import os
import sys
import tempfile
import traceback


def main():
    import h5py
    import numpy as np
    from cell_type_mapper.taxonomy.taxonomy_tree import TaxonomyTree
    from cell_type_mapper.utils.output_utils import (
        blob_to_hdf5, hdf5_to_blob)
    import cell_type_mapper
    print("package imported from", cell_type_mapper.__file__)

    tree_data = {
        'hierarchy': ['class', 'cluster'],
        'class': {'A': ['a1', 'a2'], 'B': ['b1']},
        'cluster': {'a1': [], 'a2': [], 'b1': []}}
    tree = TaxonomyTree(data=tree_data)
    rng = np.random.default_rng(0)
    parent = {'a1': 'A', 'a2': 'A', 'b1': 'B'}
    results = []
    for i in range(3000):
        leaf = ['a1', 'a2', 'b1'][int(rng.integers(0, 3))]
        cell = {'cell_id': f'c{i}'}
        for level, node, others in (
                ('class', parent[leaf], [k for k in 'AB' if k != parent[leaf]]),
                ('cluster', leaf, [k for k in parent if k != leaf])):
            n_r = int(rng.integers(0, len(others) + 1))
            cell[level] = {
                'assignment': node,
                'bootstrapping_probability': float(rng.random()),
                'aggregate_probability': float(rng.random()),
                'avg_correlation': float(rng.random()),
                'directly_assigned': True,
                'runner_up_assignment': others[:n_r],
                'runner_up_probability': [float(rng.random())
                                          for _ in range(n_r)],
                'runner_up_correlation': [float(rng.random())
                                          for _ in range(n_r)]}
        results.append(cell)
    blob = {'results': results,
            'taxonomy_tree': json.loads(tree.to_str(drop_cells=True)),
            'config': {'type_assignment': {'n_runners_up': 2}},
            'marker_genes': {'None': ['g0', 'g1']}}

    tmp = tempfile.mkdtemp()
    path = os.path.join(tmp, 'out.h5')
    try:
        blob_to_hdf5(output_blob=blob, dst_path=path)
        with h5py.File(path, 'r') as src:
            for k in ('assignment', 'bootstrapping_probability',
                      'runner_up_assignment'):
                d = src[k]
                print(f"dataset {k!r}: compression={d.compression} "
                      f"compression_opts={d.compression_opts} "
                      f"shuffle={d.shuffle} chunks={d.chunks}")
        print("file size on disk (bytes):", os.path.getsize(path))
        back = hdf5_to_blob(path)
        same = (json.dumps(back['results'], default=lambda x: x.item(),
                           sort_keys=True)
                == json.dumps(results, sort_keys=True))
        print("round trip of results identical:", same)
    finally:
        if os.path.exists(path):
            os.unlink(path)
        os.rmdir(tmp)


if __name__ == "__main__":
    try:
        main()
    except Exception:
        traceback.print_exc()
    sys.exit(0)
