"""
Show the observable behaviour touched by edit C11_i1.

Run once against the unpatched tree and once against the patched tree, e.g.

    PYTHONPATH=/repo/src        /venv/bin/python observe.py
    PYTHONPATH=/tmp/irr_C11/src /venv/bin/python observe.py

It prints (a) the log lines emitted by
find_markers_for_all_taxonomy_pairs, (b) the prefix of the scratch
directory it creates (and whether it was removed again), and (c) a digest
of the marker tables, which is the SAME before and after the edit.
Always exits 0.
"""
import hashlib
import json
import pathlib
import re
import sys
import tempfile
import traceback


def make_stats_file(path, rng):
    import h5py
    import numpy as np
    n_genes = 24
    clusters = [f'c{ii}' for ii in range(6)]
    n_cells = np.array([1, 2, 5, 9, 14, 20])
    tree = {
        'hierarchy': ['class', 'cluster'],
        'class': {'A': ['c0', 'c1', 'c2'], 'B': ['c3', 'c4', 'c5']},
        'cluster': {c: [] for c in clusters}}
    r0 = 0
    for c, n in zip(clusters, n_cells):
        tree['cluster'][c] = list(range(r0, r0+int(n)))
        r0 += int(n)
    summ = np.zeros((6, n_genes))
    sumsq = np.zeros((6, n_genes))
    ge1 = np.zeros((6, n_genes), dtype=int)
    gt0 = np.zeros((6, n_genes), dtype=int)
    gt1 = np.zeros((6, n_genes), dtype=int)
    for ic, n in enumerate(n_cells):
        scale = rng.random(n_genes)*8.0*((ic % 3)+1)/3.0
        data = rng.random((n, n_genes))*scale
        data[:, rng.integers(0, n_genes, 5)] = 0.0
        summ[ic] = data.sum(axis=0)
        sumsq[ic] = (data**2).sum(axis=0)
        ge1[ic] = (data >= 1).sum(axis=0)
        gt1[ic] = (data > 1).sum(axis=0)
        gt0[ic] = (data > 0).sum(axis=0)
    with h5py.File(path, 'w') as dst:
        dst.create_dataset('n_cells', data=n_cells)
        dst.create_dataset('sum', data=summ)
        dst.create_dataset('sumsq', data=sumsq)
        dst.create_dataset('ge1', data=ge1)
        dst.create_dataset('gt0', data=gt0)
        dst.create_dataset('gt1', data=gt1)
        dst.create_dataset(
            'col_names',
            data=json.dumps([f'g{ii}' for ii in range(n_genes)]).encode())
        dst.create_dataset(
            'cluster_to_row',
            data=json.dumps({c: ii for ii, c in enumerate(clusters)}).encode())
        dst.create_dataset(
            'taxonomy_tree', data=json.dumps(tree).encode())


class FakeLog(object):
    def __init__(self):
        self.lines = []

    def info(self, msg, **kwargs):
        self.lines.append(msg)

    def warn(self, msg, **kwargs):
        self.lines.append('WARN ' + msg)


def main():
    import h5py
    import numpy as np
    import cell_type_mapper
    from cell_type_mapper.taxonomy.taxonomy_tree import TaxonomyTree
    import cell_type_mapper.diff_exp.markers as markers

    print('package loaded from', pathlib.Path(cell_type_mapper.__file__).parent)

    scratch = pathlib.Path(tempfile.mkdtemp(prefix='observe_C11_i1_'))
    stats_path = scratch / 'stats.h5'
    make_stats_file(stats_path, np.random.default_rng(1182))
    tree = TaxonomyTree.from_precomputed_stats(stats_path)

    made = []
    orig_mkdtemp = tempfile.mkdtemp

    def spy_mkdtemp(*args, **kwargs):
        out = orig_mkdtemp(*args, **kwargs)
        made.append(pathlib.Path(out))
        return out

    work = scratch / 'work'
    work.mkdir()
    log = FakeLog()
    out_path = scratch / 'markers.h5'
    tempfile.mkdtemp = spy_mkdtemp
    try:
        markers.find_markers_for_all_taxonomy_pairs(
            precomputed_stats_path=stats_path,
            taxonomy_tree=tree,
            output_path=out_path,
            n_processors=2,
            tmp_dir=work,
            max_gb=1,
            exact_penetrance=False,
            n_valid=5,
            log=log)
    finally:
        tempfile.mkdtemp = orig_mkdtemp

    print('--- log lines (numbers masked) ---')
    for line in log.lines:
        print('  ', re.sub(r'[0-9]+\.[0-9]+(e[+-][0-9]+)?', '<t>', line))
    print('--- top-level scratch directory ---')
    top = [p for p in made if p.parent == work]
    for p in top:
        print('   prefix:', re.sub(r'[a-z0-9_]{8}$', '', p.name),
              ' created in tmp_dir:', p.parent == work,
              ' removed afterwards:', not p.exists())
    print('   tmp_dir empty afterwards:', len(list(work.iterdir())) == 0)

    print('--- marker tables (unchanged by the edit) ---')
    hasher = hashlib.md5()
    with h5py.File(out_path, 'r') as src:
        for grp in ('sparse_by_pair', 'sparse_by_gene'):
            for k in sorted(src[grp].keys()):
                arr = src[grp][k][()]
                hasher.update(k.encode())
                hasher.update(np.asarray(arr).astype(np.int64).tobytes())
        print('   top-level keys:', sorted(src.keys()))
    print('   md5 of all marker arrays:', hasher.hexdigest())

    import shutil
    shutil.rmtree(scratch, ignore_errors=True)


if __name__ == "__main__":
    try:
        main()
    except Exception:
        traceback.print_exc()
    sys.exit(0)
