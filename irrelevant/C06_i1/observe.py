#!/usr/bin/env python
"""
Observe edit C06_i1: run_type_assignment_on_h5ad_cpu now balances the
rows evenly over the chunks handed to the worker processes.

Run as
    PYTHONPATH=<tree>/src /venv/bin/python observe.py

13 query cells, chunk_size=6, n_processors=2
   original code : chunks [0,6) [6,12) [12,13)   (no 'Mapping ... chunks' log)
   patched code  : chunks [0,5) [5,10) [10,13)   (+ log line
                   'Mapping 13 cells in 3 chunks of at most 5 cells.')

The per-cell results (assignment, probability, runners up, correlation)
are printed as a digest; they are the same under both trees.

Always exits 0.
"""
import glob
import hashlib
import json
import os
import pathlib
import sys
import tempfile
import traceback


def main():
    scratch = pathlib.Path(tempfile.mkdtemp(prefix='observe_C06_i1_'))
    trace = scratch / 'trace'
    os.environ['CELL_TYPE_MAPPER_VERIF'] = '1'
    os.environ['CELL_TYPE_MAPPER_VERIF_TRACE'] = str(trace)

    import anndata
    import h5py
    import numpy as np
    import pandas as pd

    import cell_type_mapper
    from cell_type_mapper.taxonomy.taxonomy_tree import TaxonomyTree
    from cell_type_mapper.type_assignment.election import (
        run_type_assignment_on_h5ad_cpu)
    from cell_type_mapper.utils.utils import _clean_up

    print("package under test:", cell_type_mapper.__file__)

    n_genes = 190
    gene_names = [f'gene_{ii}' for ii in range(n_genes)]
    taxonomy = dict()
    taxonomy['hierarchy'] = ['level_1', 'level_2', 'cluster']
    taxonomy['level_1'] = {
        'A': ['aa', 'bb'], 'B': ['cc'], 'C': ['dd', 'ee']}
    taxonomy['level_2'] = {
        'aa': ['c1', 'c2'],
        'bb': ['c3', 'c4', 'c5'],
        'cc': ['c6', 'c7', 'c8', 'c9'],
        'dd': ['c10', 'c11'],
        'ee': ['c12', 'c13']}
    taxonomy['cluster'] = {
        f'c{ii}': [ii, ii+22] for ii in range(1, 14, 1)}
    tree = TaxonomyTree(data=taxonomy)

    clusters = list(taxonomy['cluster'].keys())
    n_cells = len(clusters)
    tt = np.linspace(0, 1, n_genes)
    data = np.zeros((n_cells, n_genes), dtype=float)
    cluster_to_row = dict()
    for ii, cl in enumerate(clusters):
        data[ii, :] = 1.0 + np.sin(2.0*np.pi*tt*(ii+1)/15.0)
        cluster_to_row[cl] = ii

    precompute_path = scratch / 'precompute.h5'
    with h5py.File(precompute_path, 'w') as dst:
        dst.create_dataset(
            'cluster_to_row',
            data=json.dumps(cluster_to_row).encode('utf-8'))
        dst.create_dataset(
            'col_names', data=json.dumps(gene_names).encode('utf-8'))
        dst.create_dataset('n_cells', data=np.ones(n_cells, dtype=int))
        dst.create_dataset('sum', data=data)
        for k in ('gt1', 'gt0', 'ge1', 'sumsq'):
            dst.create_dataset(
                k, data=np.zeros((n_cells, n_genes), dtype=int))

    obs = pd.DataFrame(
        [{'cell_id': f'cell_{cl}'} for cl in clusters]).set_index('cell_id')
    var = pd.DataFrame(
        [{'gene_name': g} for g in gene_names]).set_index('gene_name')
    query_path = scratch / 'query.h5ad'
    anndata.AnnData(X=data, obs=obs, var=var).write_h5ad(query_path)

    parents = ['None']
    for level in taxonomy['hierarchy'][:-1]:
        for node in taxonomy[level].keys():
            parents.append(f'{level}/{node}')
    marker_path = scratch / 'markers.h5'
    rng = np.random.default_rng(8712312)
    all_markers = set()
    with h5py.File(marker_path, 'w') as dst:
        for grp in parents:
            chosen = rng.choice(
                np.arange(n_genes, dtype=int), 9, replace=False)
            dst.create_dataset(f"{grp}/reference", data=chosen)
            dst.create_dataset(f"{grp}/query", data=chosen)
            all_markers = all_markers.union(set(chosen))
        all_markers = np.sort(np.array(list(all_markers)))
        dst.create_dataset("all_query_markers", data=all_markers)
        dst.create_dataset("all_reference_markers", data=all_markers)
        name_data = json.dumps(gene_names).encode('utf-8')
        dst.create_dataset("query_gene_names", data=name_data)
        dst.create_dataset("reference_gene_names", data=name_data)

    class Log(object):
        def info(self, msg, **kwargs):
            print("LOG info:", msg)

        def warn(self, msg, **kwargs):
            print("LOG warn:", msg)

        def error(self, msg, **kwargs):
            raise RuntimeError(msg)

        def benchmark(self, msg, duration, **kwargs):
            pass

    factor_lookup = {'None': 1.0, 'level_1': 1.0, 'level_2': 1.0}

    result = run_type_assignment_on_h5ad_cpu(
        query_h5ad_path=query_path,
        precomputed_stats_path=precompute_path,
        marker_gene_cache_path=marker_path,
        taxonomy_tree=tree,
        n_processors=2,
        chunk_size=6,
        bootstrap_factor_lookup=factor_lookup,
        bootstrap_iteration=5,
        rng=np.random.default_rng(2231),
        n_assignments=3,
        normalization='log2CPM',
        tmp_dir=str(scratch),
        log=Log(),
        max_gb=1)

    chunks = []
    for path in glob.glob(str(trace) + '.*'):
        with open(path) as src:
            for line in src:
                rec = json.loads(line)
                if rec['kind'] == 'chunk':
                    chunks.append((rec['r0'], rec['r1']))
    chunks.sort()
    print("chunks handed to workers (r0, r1):", chunks)

    by_cell = {c['cell_id']: {k: c[k] for k in c if k != 'cell_id'}
               for c in result}
    for cell_id in sorted(by_cell):
        print(cell_id,
              [by_cell[cell_id][lv]['assignment']
               for lv in taxonomy['hierarchy']])

    def _round(x):
        if isinstance(x, dict):
            return {k: _round(x[k]) for k in sorted(x)}
        if isinstance(x, (list, tuple)):
            return [_round(v) for v in x]
        if isinstance(x, (float, np.floating)):
            return round(float(x), 9)
        if isinstance(x, np.integer):
            return int(x)
        if isinstance(x, (np.str_, np.bool_)):
            return x.item()
        return x

    digest = hashlib.md5(
        json.dumps(_round(by_cell), sort_keys=True).encode('utf-8')
    ).hexdigest()
    print("digest of per-cell results (rounded to 1e-9):", digest)

    _clean_up(scratch)


if __name__ == "__main__":
    try:
        main()
    except Exception:
        traceback.print_exc()
    sys.exit(0)
