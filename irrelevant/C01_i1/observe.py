#!/venv/bin/python
"""
Show that edit C01_i1 changes observable behaviour (names of the scratch
directory / per-chunk buffer files written by the CPU type assignment, and
the order in which chunk results are concatenated BEFORE re_order_blob),
while the final mapping output is unchanged.

usage: /venv/bin/python observe.py [path_to_repo]    (default /repo)

The script copies <repo>/src to two scratch trees, applies patch.diff to one
of them, runs the same tiny end-to-end mapping under each tree and prints
what differs.  Always exits 0.
"""
import json
import os
import pathlib
import shutil
import subprocess
import sys
import tempfile

HERE = pathlib.Path(__file__).resolve().parent
PY = '/venv/bin/python'

PROBE = r'''
import json, os, pathlib, sys, tempfile, warnings
warnings.simplefilter('ignore')
import numpy as np, pandas as pd, anndata
os.environ['AIBS_BKP_USE_TORCH'] = 'false'

import cell_type_mapper.type_assignment.election as election
import cell_type_mapper.utils.output_utils as output_utils
import cell_type_mapper.type_assignment.election_runner as election_runner
from cell_type_mapper.taxonomy.taxonomy_tree import TaxonomyTree
from cell_type_mapper.diff_exp.precompute_from_anndata import (
    precompute_summary_stats_from_h5ad)
from cell_type_mapper.cli.from_specified_markers import run_mapping

work = pathlib.Path(sys.argv[1])
rng = np.random.default_rng(11)
genes = [f'g{i}' for i in range(12)]
clusters = ['a1', 'a2', 'b1', 'b2', 'c1']
tree = {'hierarchy': ['class', 'cluster'],
        'class': {'A': ['a1', 'a2'], 'B': ['b1', 'b2'], 'C': ['c1']},
        'cluster': {}}
obs = []
X = []
for ic, cl in enumerate(clusters):
    tree['cluster'][cl] = []
    for j in range(6):
        cid = f'ref_{cl}_{j}'
        tree['cluster'][cl].append(cid)
        obs.append({'cell_id': cid, 'cluster': cl, 'class': cl[0].upper()})
        row = rng.integers(1, 5, len(genes))
        row[2*ic] += 200
        row[2*ic+1] += 100
        X.append(row)
X = np.array(X)
ref = anndata.AnnData(
    X=X.astype(np.float32), obs=pd.DataFrame(obs).set_index('cell_id'),
    var=pd.DataFrame({'gene': genes}).set_index('gene'))
ref_path = work / 'ref.h5ad'
ref.write_h5ad(ref_path)
stats_path = work / 'stats.h5'
precompute_summary_stats_from_h5ad(
    data_path=ref_path, column_hierarchy=['class', 'cluster'],
    taxonomy_tree=None, output_path=stats_path,
    rows_at_a_time=1000, normalization='raw')

markers = {'None': genes, 'class/A': genes[:6], 'class/B': genes[3:10]}
marker_path = work / 'markers.json'
marker_path.write_text(json.dumps(markers))

n_query = 23
qX = rng.integers(1, 300, (n_query, len(genes))).astype(np.float32)
q_ids = [f'q{(7*i) % n_query:02d}' for i in range(n_query)]
query = anndata.AnnData(
    X=qX, obs=pd.DataFrame({'cell_id': q_ids}).set_index('cell_id'),
    var=pd.DataFrame({'gene': genes}).set_index('gene'))
query_path = work / 'query.h5ad'
query.write_h5ad(query_path)

seen = {'buffer_dirs': [], 'buffer_files': [], 'pre_reorder_ids': None}

orig_clean = election._clean_up
def spy_clean(target):
    target = pathlib.Path(target)
    if target.is_dir():
        seen['buffer_dirs'].append(target.name)
        seen['buffer_files'] += sorted(p.name for p in target.iterdir())
    return orig_clean(target)
election._clean_up = spy_clean

orig_reorder = output_utils.re_order_blob
def spy_reorder(results_blob, query_path):
    seen['pre_reorder_ids'] = [c['cell_id'] for c in results_blob]
    return orig_reorder(results_blob=results_blob, query_path=query_path)
election_runner.re_order_blob = spy_reorder

tmp_dir = work / 'scratch'
tmp_dir.mkdir()
out_path = work / 'out.json'
config = {
    'tmp_dir': str(tmp_dir),
    'query_path': str(query_path),
    'extended_result_path': str(out_path),
    'csv_result_path': str(work / 'out.csv'),
    'max_gb': 1.0,
    'precomputed_stats': {'path': str(stats_path)},
    'flatten': False,
    'drop_level': None,
    'cloud_safe': False,
    'extended_result_dir': None,
    'summary_metadata_path': None,
    'map_to_ensembl': False,
    'obsm_key': None,
    'obsm_clobber': False,
    'log_path': None,
    'hdf5_result_path': None,
    'query_markers': {'serialized_lookup': str(marker_path)},
    'type_assignment': {
        'bootstrap_iteration': 20, 'bootstrap_factor': 0.8,
        'bootstrap_factor_lookup': None, 'min_markers': 3,
        'rng_seed': 5, 'n_processors': 2, 'chunk_size': 2,
        'normalization': 'raw', 'n_runners_up': 2}}
run_mapping(config=config, output_path=str(out_path),
            log_path=None, hdf5_output_path=None)

out = json.load(open(out_path))
results = out['results']
t = TaxonomyTree(data=tree)
ok = (len(results) == n_query
      and [c['cell_id'] for c in results] == q_ids)
for c in results:
    cl = c['cluster']['assignment']
    ok = ok and cl in tree['cluster']
    ok = ok and cl in tree['class'][c['class']['assignment']]

# tempfile.mkdtemp appends 8 random characters
seen['buffer_dir_prefixes'] = sorted(set(
    d[:-8] for d in seen.pop('buffer_dirs')))
seen['scratch_left_behind'] = sorted(p.name for p in tmp_dir.iterdir())
seen['property_C01_holds_on_this_run'] = bool(ok)
seen['final_results'] = [
    (c['cell_id'], c['class']['assignment'], c['cluster']['assignment'])
    for c in results]
print('PROBE_JSON' + json.dumps(seen))
'''


def run_probe(src_dir, scratch):
    env = dict(os.environ)
    env['PYTHONPATH'] = str(src_dir)
    env.pop('CELL_TYPE_MAPPER_VERIF', None)
    probe_path = scratch / 'probe.py'
    probe_path.write_text(PROBE)
    work = pathlib.Path(tempfile.mkdtemp(dir=scratch))
    proc = subprocess.run(
        [PY, str(probe_path), str(work)], env=env, cwd=str(scratch),
        capture_output=True, text=True)
    for line in proc.stdout.splitlines():
        if line.startswith('PROBE_JSON'):
            return json.loads(line[len('PROBE_JSON'):])
    raise RuntimeError(
        'probe failed\n' + proc.stdout[-2000:] + '\n' + proc.stderr[-4000:])


def main():
    repo = pathlib.Path(sys.argv[1] if len(sys.argv) > 1 else '/repo')
    scratch = pathlib.Path(tempfile.mkdtemp(prefix='observe_C01_i1_'))
    try:
        trees = {}
        for name in ('original', 'patched'):
            root = scratch / name
            shutil.copytree(repo / 'src', root / 'src',
                            ignore=shutil.ignore_patterns(
                                '__pycache__', '*.egg-info'))
            trees[name] = root
        subprocess.run(
            ['git', 'apply', str(HERE / 'patch.diff')],
            cwd=str(trees['patched']), check=True)
        obs = {name: run_probe(trees[name] / 'src', scratch)
               for name in trees}
        for key in ('buffer_dir_prefixes', 'buffer_files',
                    'pre_reorder_ids', 'scratch_left_behind',
                    'property_C01_holds_on_this_run'):
            a = obs['original'][key]
            b = obs['patched'][key]
            tag = 'DIFFERENT' if a != b else 'same'
            print(f'--- {key}: {tag}')
            print(f'    original: {a}')
            print(f'    patched : {b}')
        same = obs['original']['final_results'] == \
            obs['patched']['final_results']
        print(f'--- final per-cell (id, class, cluster) records identical '
              f'in both trees: {same}')
    except Exception as err:   # always exit 0
        print(f'observe.py could not complete: {err}')
    finally:
        shutil.rmtree(scratch, ignore_errors=True)


if __name__ == '__main__':
    main()
    sys.exit(0)
