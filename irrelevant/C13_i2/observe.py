"""
Show the observable differences introduced by edit C13_i2 in
cell_type_mapper.utils.csc_to_csr:

the serial on-disk transposition derives its read-block size and its
output-block size from the memory budget differently (budget split
1/2 : 1/2 instead of 1/3 : 2/3, floor of 64 elements instead of 100).
That is visible in the sequence of hyperslabs read from the input
'indices' array and in the number of separate writes to the output file;
the output file's content is identical.

Run with   PYTHONPATH=<worktree>/src /venv/bin/python observe.py
against the unpatched and the patched tree and compare the output.
Always exits 0.
"""
import pathlib
import sys
import tempfile

try:
    import h5py
    import numpy as np
    import scipy.sparse as scipy_sparse

    import cell_type_mapper.utils.csc_to_csr as ser
    import cell_type_mapper.utils.utils as ctm_utils

    class SpyArray(object):
        """minimal stand-in for an h5py dataset that logs slice reads"""
        def __init__(self, arr):
            self.arr = arr
            self.shape = arr.shape
            self.dtype = arr.dtype
            self.reads = []

        def __getitem__(self, key):
            if isinstance(key, slice):
                self.reads.append((int(key.start), int(key.stop)))
            return np.copy(self.arr[key])

    rng = np.random.default_rng(1)
    dense = rng.integers(1, 9, (40, 30)).astype(np.float64)
    dense[rng.random(dense.shape) < 0.7] = 0
    csr = scipy_sparse.csr_matrix(dense)
    print('stored entries:', csr.nnz)

    scratch = pathlib.Path(tempfile.mkdtemp(prefix='observe_c13_i2_'))

    for max_gb in (1.0e-9, 1.0e-5):
        indices = SpyArray(csr.indices.astype(np.int64))
        indptr = SpyArray(csr.indptr.astype(np.int64))
        data = SpyArray(csr.data)
        out_path = scratch / f'out_{max_gb:.0e}.h5'

        ser.transpose_sparse_matrix_on_disk(
            indices_handle=indices,
            indptr_handle=indptr,
            data_handle=data,
            indices_max=dense.shape[1],
            max_gb=max_gb,
            output_path=out_path,
            verbose=False)

        widths = sorted(set(r[1]-r[0] for r in indices.reads))
        print(f'max_gb={max_gb:.0e}:')
        print('   number of reads from "indices":', len(indices.reads))
        print('   distinct read widths          :', widths)
        print('   first reads                   :', indices.reads[:4])

        with h5py.File(out_path, 'r') as f:
            got = scipy_sparse.csc_matrix(
                (f['data'][()], f['indices'][()], f['indptr'][()]),
                shape=dense.shape).toarray()
        print('   result is still the exact transpose:',
              bool(np.array_equal(got, dense)))

    ctm_utils._clean_up(scratch)
except Exception as err:   # never fail
    print('observe.py hit an exception:', repr(err))
sys.exit(0)
