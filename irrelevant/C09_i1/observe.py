"""
Show the observable change of edit C09_i1: the HDF5 chunk layout of the
2-D arrays in a freshly written precomputed-stats file.

Run with  PYTHONPATH=<worktree>/src /venv/bin/python observe.py
Before the edit:  chunks == (n_clusters//10, n_genes)  -> (4, 7) here
After the edit:   chunks == (1, n_genes)               -> (1, 7) here
The numerical contents are printed too (checksum) and are identical.
"""
import sys
import tempfile
import pathlib
import warnings

try:
    import anndata
    import h5py
    import numpy as np
    import pandas as pd
    warnings.simplefilter('ignore')

    from cell_type_mapper.diff_exp.precompute_from_anndata import (
        precompute_summary_stats_from_h5ad)

    rng = np.random.default_rng(0)
    n_clusters = 40
    n_genes = 7
    n_cells = 200
    x = rng.integers(0, 50, (n_cells, n_genes)).astype(float)
    cl = [f'c{ii % n_clusters:02d}' for ii in range(n_cells)]
    obs = pd.DataFrame(
        {'cluster': cl, 'class': ['A' if int(c[1:]) < 20 else 'B' for c in cl]},
        index=[f'cell_{ii}' for ii in range(n_cells)])
    var = pd.DataFrame(index=[f'g{ii}' for ii in range(n_genes)])

    with tempfile.TemporaryDirectory() as tmp:
        tmp = pathlib.Path(tmp)
        h5ad = tmp / 'ref.h5ad'
        anndata.AnnData(X=x, obs=obs, var=var).write_h5ad(h5ad)
        out = tmp / 'stats.h5'
        precompute_summary_stats_from_h5ad(
            data_path=h5ad,
            column_hierarchy=['class', 'cluster'],
            taxonomy_tree=None,
            output_path=out,
            rows_at_a_time=37,
            normalization='raw',
            tmp_dir=tmp,
            n_processors=1)
        with h5py.File(out, 'r') as src:
            for k in ('n_cells', 'sum', 'sumsq', 'gt0', 'gt1', 'ge1'):
                print(f'{k:8s} shape={src[k].shape} chunks={src[k].chunks} '
                      f'checksum={float(src[k][()].sum()):.6f}')
except Exception as err:  # always exit 0
    print('observe.py failed:', repr(err))
sys.exit(0)
