"""
Shows the observable change of edit C15_i2: the run log (the "log" entry of
the extended JSON output, also echoed to stdout / the log file) of
cell_type_mapper.cli.from_specified_markers contains a re-worded
"marker genes" line and two additional lines around the writing of the CSV
file ("Writing CSV output for N cells ..." and a BENCHMARK line).
The CSV file and the "results" of the JSON are printed (hashed) too, so one
can see they are not affected.

Run with  PYTHONPATH=<worktree>/src /venv/bin/python observe.py
(once against the original source, once against the patched source).
"""
import hashlib
import json
import pathlib
import shutil
import sys
import tempfile
import traceback
import warnings


def main():
    warnings.simplefilter('ignore')
    import anndata
    import numpy as np
    import pandas as pd
    import cell_type_mapper
    from cell_type_mapper.taxonomy.taxonomy_tree import TaxonomyTree
    from cell_type_mapper.diff_exp.precompute_from_anndata import (
        precompute_summary_stats_from_h5ad)
    from cell_type_mapper.cli.from_specified_markers import (
        run_mapping)
    print("package imported from", cell_type_mapper.__file__)

    tmp = pathlib.Path(tempfile.mkdtemp(prefix='observe_C15_i2_'))
    try:
        rng = np.random.default_rng(5)
        genes = [f'g{i}' for i in range(30)]
        clusters = ['a1', 'a2', 'b1', 'b2']
        parent = {'a1': 'A', 'a2': 'A', 'b1': 'B', 'b2': 'B'}
        n_ref = 80
        obs = pd.DataFrame(
            [{'cell_id': f'r{i}',
              'cluster': clusters[i % 4],
              'class': parent[clusters[i % 4]]} for i in range(n_ref)]
        ).set_index('cell_id')
        x = rng.integers(0, 20, (n_ref, len(genes))).astype(float)
        for i in range(n_ref):
            x[i, (i % 4)*5:(i % 4)*5+5] += 200.0
        var = pd.DataFrame({'gene_name': genes}).set_index('gene_name')
        ref_path = tmp / 'ref.h5ad'
        anndata.AnnData(X=x, obs=obs, var=var).write_h5ad(ref_path)

        stats_path = tmp / 'stats.h5'
        precompute_summary_stats_from_h5ad(
            data_path=ref_path,
            column_hierarchy=['class', 'cluster'],
            taxonomy_tree=None,
            output_path=stats_path,
            rows_at_a_time=1000,
            normalization='raw',
            n_processors=1)

        markers = {'None': genes[:20],
                   'class/A': genes[:10],
                   'class/B': genes[10:20]}
        marker_path = tmp / 'markers.json'
        marker_path.write_text(json.dumps(markers))

        n_q = 12
        qx = rng.integers(0, 20, (n_q, len(genes))).astype(float)
        for i in range(n_q):
            qx[i, (i % 4)*5:(i % 4)*5+5] += 200.0
        q_obs = pd.DataFrame(
            {'cell_id': [f'q{i}' for i in range(n_q)]}).set_index('cell_id')
        query_path = tmp / 'query.h5ad'
        anndata.AnnData(X=qx, obs=q_obs, var=var).write_h5ad(query_path)

        json_path = tmp / 'out.json'
        csv_path = tmp / 'out.csv'
        hdf5_path = tmp / 'out.h5'
        # full config (all schema defaults spelled out, because argschema
        # cannot be used in this sandbox; run_mapping is what the CLI
        # runner calls)
        config = {
            'query_path': str(query_path),
            'extended_result_path': str(json_path),
            'extended_result_dir': None,
            'hdf5_result_path': str(hdf5_path),
            'csv_result_path': str(csv_path),
            'summary_metadata_path': None,
            'log_path': None,
            'obsm_key': None,
            'obsm_clobber': False,
            'tmp_dir': str(tmp),
            'max_gb': 1.0,
            'cloud_safe': False,
            'map_to_ensembl': False,
            'drop_level': None,
            'precomputed_stats': {'path': str(stats_path)},
            'query_markers': {'serialized_lookup': str(marker_path)},
            'flatten': False,
            'type_assignment': {
                'bootstrap_iteration': 10,
                'bootstrap_factor': 0.75,
                'bootstrap_factor_lookup': None,
                'rng_seed': 11,
                'n_processors': 1,
                'chunk_size': 100,
                'normalization': 'raw',
                'n_runners_up': 1,
                'min_markers': 5}}

        # the runner echoes its log to stdout; silence that, we print
        # the relevant lines from the JSON "log" entry below
        import contextlib
        import io
        with contextlib.redirect_stdout(io.StringIO()):
            run_mapping(
                config=config,
                output_path=config['extended_result_path'],
                log_path=config['log_path'],
                hdf5_output_path=config['hdf5_result_path'])

        blob = json.load(open(json_path, 'rb'))
        print("---- log lines mentioning 'CSV' or 'marker genes' ----")
        for line in blob['log']:
            if 'CSV' in line or 'arker genes' in line:
                print("   ", line)
        print("number of log lines:", len(blob['log']))
        print("---- things the edit does not touch ----")
        print("sha1(results in JSON):", hashlib.sha1(
            json.dumps(blob['results'], sort_keys=True).encode()
        ).hexdigest())
        csv_lines = csv_path.read_text().splitlines()
        # the '# metadata = ' line carries only the JSON file name (fixed here)
        print("sha1(CSV file):",
              hashlib.sha1('\n'.join(csv_lines).encode()).hexdigest())
        for line in csv_lines[:5]:
            print("   ", line)
        from cell_type_mapper.utils.output_utils import hdf5_to_blob
        back = hdf5_to_blob(hdf5_path)
        print("HDF5 read-back log == JSON log:", back['log'] == blob['log'])
        print("HDF5 read-back results == JSON results:",
              json.dumps(back['results'], sort_keys=True,
                         default=lambda v: v.item())
              == json.dumps(blob['results'], sort_keys=True))
    finally:
        shutil.rmtree(tmp, ignore_errors=True)


if __name__ == "__main__":
    try:
        main()
    except Exception:
        traceback.print_exc()
    sys.exit(0)
