"""
Show the observable change of edit C16_i1: the wording of the warning
emitted when validate_h5ad rounds a non-integer X matrix.

Run as
    PYTHONPATH=<worktree>/src /venv/bin/python observe.py
Against the unpatched package the warning reads
    VALIDATION: rounding X matrix of <name> to integer values
against the patched package it reads
    VALIDATION: X matrix of ../<name> contains non-integer values; rounding
    them to the nearest integer (will be stored as <dtype>; input values
    span [<min>, <max>])
Always exits 0.
"""
import sys
import traceback


def main():
    import pathlib
    import tempfile
    import warnings
    import anndata
    import numpy as np
    import pandas as pd
    import cell_type_mapper
    from cell_type_mapper.gene_id.gene_id_mapper import GeneIdMapper
    from cell_type_mapper.validation.validate_h5ad import validate_h5ad
    from cell_type_mapper.cli.cli_log import CommandLog

    print("package loaded from", cell_type_mapper.__file__)
    with tempfile.TemporaryDirectory() as tmp:
        tmp = pathlib.Path(tmp)
        obs = pd.DataFrame(
            [{'cell_id': f'c{i}'} for i in range(4)]).set_index('cell_id')
        var = pd.DataFrame(
            [{'gene_id': f'ENSG{i}'} for i in range(3)]).set_index('gene_id')
        x = np.array([[0.0, 1.4, 255.5],
                      [2.0, 0.0, 3.6],
                      [0.0, 7.5, 0.0],
                      [31.2, 0.0, 1.0]], dtype=np.float32)
        src = tmp / 'input.h5ad'
        anndata.AnnData(X=x, obs=obs, var=var).write_h5ad(src)
        mapper = GeneIdMapper(data={'a': 'ENSG0'})

        # 1. python warning (log=None)
        with warnings.catch_warnings(record=True) as caught:
            warnings.simplefilter('always')
            out, _ = validate_h5ad(
                h5ad_path=src, gene_id_mapper=mapper, log=None,
                expected_max=None, tmp_dir=tmp, layer='X',
                round_to_int=True, valid_h5ad_path=tmp / 'out.h5ad')
        msgs = [str(w.message) for w in caught
                if 'VALIDATION' in str(w.message)]
        for m in msgs:
            print("WARNING TEXT:", m)
        old = "VALIDATION: rounding X matrix of input.h5ad to integer values"
        print("identical to pre-edit wording:", old in msgs)

        # 2. same text through the CommandLog
        log = CommandLog()
        with warnings.catch_warnings():
            warnings.simplefilter('ignore')
            validate_h5ad(
                h5ad_path=src, gene_id_mapper=mapper, log=log,
                expected_max=None, tmp_dir=tmp, layer='X',
                round_to_int=True, valid_h5ad_path=tmp / 'out2.h5ad')
        for line in log.log:
            if 'X matrix' in line:
                print("LOG LINE:", line)

        # result itself is unaffected
        res = anndata.read_h5ad(out)
        print("output dtype:", res.X.dtype, "output X:", res.X.tolist())


if __name__ == "__main__":
    try:
        main()
    except Exception:
        traceback.print_exc()
    sys.exit(0)
