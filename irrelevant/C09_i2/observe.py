"""
Show the observable change of edit C09_i2: how the (file, r0, r1) chunks
are dealt to worker processes while computing reference statistics, and
the new informational stdout line.

Run with  PYTHONPATH=<worktree>/src /venv/bin/python observe.py

Scenario: 3 h5ad files x 100 cells, rows_at_a_time=100, n_processors=3.
Before the edit: contiguous blocks -> only 2 worker processes do work
                 (2 "finally process ..." lines), no "precomputing stats:"
                 line.
After the edit:  round-robin -> 3 worker processes do work
                 (3 "finally process ..." lines) and a line
                 "precomputing stats: 3 chunks of <= 100 rows dealt to
                 3 worker(s) (~100 cells per worker)" is printed.
The statistics themselves agree with direct computation in both cases
(counts exactly, sums to rounding) -- printed at the end.
"""
import subprocess
import sys

INNER = r'''
import json, pathlib, shutil, tempfile, warnings
import anndata, h5py, numpy as np, pandas as pd
warnings.simplefilter('ignore')
from cell_type_mapper.taxonomy.taxonomy_tree import TaxonomyTree
from cell_type_mapper.diff_exp.precompute_from_anndata import (
    precompute_summary_stats_from_h5ad_list_and_tree)

rng = np.random.default_rng(1)
n_files, n_per_file, n_genes, n_clusters = 3, 100, 5, 6
tmp = pathlib.Path(tempfile.mkdtemp())
paths = []
all_x = []
all_names = []
var = pd.DataFrame(index=[f'g{i}' for i in range(n_genes)])
for i_f in range(n_files):
    x = rng.integers(0, 30, (n_per_file, n_genes)).astype(float)
    names = [f'f{i_f}_c{i}' for i in range(n_per_file)]
    p = tmp / f'ref_{i_f}.h5ad'
    anndata.AnnData(X=x, obs=pd.DataFrame(index=names), var=var).write_h5ad(p)
    paths.append(p); all_x.append(x); all_names += names
x = np.vstack(all_x)
label = rng.integers(0, n_clusters, len(all_names))
label[::17] = -1   # unlabelled cells
tree = {'hierarchy': ['class', 'cluster'],
        'class': {'A': [f'cl{i}' for i in range(3)],
                  'B': [f'cl{i}' for i in range(3, n_clusters)]},
        'cluster': {f'cl{i}': [n for n, l in zip(all_names, label) if l == i]
                    for i in range(n_clusters)}}
tree = TaxonomyTree(data=tree)
out = tmp / 'stats.h5'
precompute_summary_stats_from_h5ad_list_and_tree(
    data_path_list=paths, taxonomy_tree=tree, output_path=out,
    rows_at_a_time=100, normalization='raw', tmp_dir=tmp, n_processors=3)

cpm = 1.0e6 * x / x.sum(axis=1, keepdims=True)
lg = np.log2(cpm + 1.0)
with h5py.File(out, 'r') as src:
    c2r = json.loads(src['cluster_to_row'][()].decode('utf-8'))
    worst = 0.0
    exact = True
    for i in range(n_clusters):
        r = c2r[f'cl{i}']
        m = label == i
        exact &= int(src['n_cells'][r]) == int(m.sum())
        exact &= np.array_equal(src['gt0'][r, :], (cpm[m] > 0).sum(axis=0))
        exact &= np.array_equal(src['gt1'][r, :], (cpm[m] > 1).sum(axis=0))
        worst = max(worst, np.abs(src['sum'][r, :] - lg[m].sum(axis=0)).max()
                    / np.abs(lg[m].sum(axis=0)).max())
        worst = max(worst,
                    np.abs(src['sumsq'][r, :] - (lg[m]**2).sum(axis=0)).max()
                    / np.abs((lg[m]**2).sum(axis=0)).max())
print(f'RESULT counts_exact={bool(exact)} max_rel_err_sums={worst:.1e}')
shutil.rmtree(tmp, ignore_errors=True)
'''

try:
    res = subprocess.run([sys.executable, '-c', INNER],
                         capture_output=True, text=True)
    lines = res.stdout.splitlines()
    n_worker_lines = len([ln for ln in lines
                          if ln.startswith('finally process')])
    info = [ln for ln in lines if ln.startswith('precomputing stats:')]
    print('worker processes that did work:', n_worker_lines)
    print('new info line(s):', info if info else '<none>')
    for ln in lines:
        if ln.startswith('RESULT'):
            print(ln)
    if res.returncode != 0:
        print('inner script failed:', res.stderr[-2000:])
except Exception as err:
    print('observe.py failed:', repr(err))
sys.exit(0)
