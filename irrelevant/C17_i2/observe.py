#!/usr/bin/env python
"""
Observe edit C17_i2: the wording of the three RuntimeError messages
raised by TaxonomyTree._drop_level (flat tree / level not in the
hierarchy / leaf level) changed.  Exception type and the situations
in which they are raised are the same.

usage:  PYTHONPATH=<worktree>/src /venv/bin/python observe.py

Prints the three messages, and shows that legal drops (top level,
middle level) still give the same reduced tree.  Always exits 0.
"""
import sys
import traceback
import warnings


def main():
    warnings.simplefilter('ignore')
    try:
        import cell_type_mapper
        from cell_type_mapper.taxonomy.taxonomy_tree import TaxonomyTree
        print('cell_type_mapper imported from', cell_type_mapper.__file__)

        data = {
            'hierarchy': ['class', 'subclass', 'cluster'],
            'class': {'A': ['a1', 'a2'], 'B': ['b1']},
            'subclass': {'a1': ['c0', 'c1'], 'a2': ['c2'],
                         'b1': ['c3', 'c4']},
            'cluster': {f'c{ii}': [] for ii in range(5)}}
        tree = TaxonomyTree(data=data)
        flat = tree.flatten()

        cases = [
            ('flat tree', lambda: flat.drop_level('cluster')),
            ('level not in hierarchy', lambda: tree.drop_level('nope')),
            ('leaf level', lambda: tree.drop_level('cluster'))]
        for tag, fn in cases:
            try:
                fn()
                print(f'[{tag}] NO EXCEPTION')
            except Exception as err:
                print(f'[{tag}] {type(err).__name__}: {str(err)!r}')

        # legal drops are unaffected
        for level in ('class', 'subclass'):
            reduced = tree.drop_level(level)
            print(f"[drop '{level}'] hierarchy={reduced.hierarchy} "
                  f"parents={reduced.all_parents}")
            for parent in reduced.all_parents:
                if parent is not None:
                    print('     ', parent,
                          reduced.children(parent[0], parent[1]))
    except Exception:
        traceback.print_exc()
    sys.exit(0)


if __name__ == '__main__':
    main()
